#!/usr/bin/env python3
"""Evaluate independently written breaking changes kept under /verif/seeded/<id>/ (patch.diff, demo, meta.json).

usage: tools/seeded.py verify <worktree> <seed-id> <property>    confirm a candidate in a sub-agent worktree and store it
       tools/seeded.py run [--only id,..] [--tier quick] [--all-checks]   run the checks against every stored seed
The patch is applied to a scratch copy of /repo/hta (outside /repo and /verif, removed afterwards) and the checks run
against it through PYTHONPATH, so concurrent runs against /repo itself are not disturbed.
"""
import argparse, glob, json, os, shutil, subprocess, sys, tempfile, time

ROOT = os.path.dirname(os.path.dirname(os.path.abspath(__file__)))
REPO = "/repo"
PY = "/venv/bin/python"


def scratch_with_patch(patch):
    d = tempfile.mkdtemp(prefix="hv-seed-")
    shutil.copytree(os.path.join(REPO, "hta"), os.path.join(d, "hta"))
    shutil.copytree(os.path.join(REPO, "tests"), os.path.join(d, "tests"))
    for f in ("setup.py", "setup.cfg", "pyproject.toml", "requirements.txt"):
        if os.path.exists(os.path.join(REPO, f)):
            shutil.copy(os.path.join(REPO, f), d)
    r = subprocess.run(["patch", "-p1", "-d", d, "-i", patch], capture_output=True, text=True)
    if r.returncode != 0:
        shutil.rmtree(d, ignore_errors=True)
        raise SystemExit(f"patch does not apply: {r.stdout}{r.stderr}")
    return d


def baseline_ok(d):
    import xml.etree.ElementTree as ET
    base = json.load(open("/root/.vp/BASELINE.json"))
    xml = os.path.join(d, "junit.xml")
    env = dict(os.environ, PYTHONPATH=d)
    subprocess.run([PY, "-m", "pytest", "-q", "-p", "no:cacheprovider", "--timeout=900", "--continue-on-collection-errors",
                    "--junitxml=" + xml], cwd=d, env=env, stdout=subprocess.DEVNULL, stderr=subprocess.DEVNULL)
    passed = set()
    for tc in ET.parse(xml).getroot().iter("testcase"):
        if not any(c.tag in ("failure", "error", "skipped") for c in tc):
            passed.add(f"{tc.get('classname')}::{tc.get('name')}")
    return [t for t in base["stable_pass"] if t not in passed]


def run_check(d, prop, tier, seed=1):
    env = dict(os.environ, PYTHONPATH=d, HV_EVIDENCE_DIR=os.path.join(d, "ev"), HV_FAILURES_DIR=os.path.join(d, "fail"),
               HV_TMP=os.path.join(d, "tmp"), VERIF_SEED=str(seed), PYTHONHASHSEED="0")
    t0 = time.time()
    r = subprocess.run([PY, "-m", "hv.run", prop, "--tier", tier], cwd=ROOT, env=env, capture_output=True, text=True)
    lines = [l.strip() for l in r.stdout.splitlines() if l.startswith(("VIOLATION", "  check="))]
    return r.returncode, time.time() - t0, " | ".join(l[:170] for l in lines[:2]) or r.stdout.strip()[-150:] or r.stderr.strip()[-150:]


def cmd_verify(a):
    wt, sid, prop = a.worktree, a.seed_id, a.property
    patch = os.path.join(wt, "seed", "patch.diff")
    demo = os.path.join(wt, "seed", "demo.py")
    d = scratch_with_patch(patch)
    try:
        env_with = dict(os.environ, PYTHONPATH=d)
        env_without = dict(os.environ, PYTHONPATH=REPO)
        rw = subprocess.run([PY, demo], env=env_with, capture_output=True, text=True, cwd=d)
        ro = subprocess.run([PY, demo], env=env_without, capture_output=True, text=True, cwd=d)
        missing = baseline_ok(d)
        print(f"demo with change: exit {rw.returncode}; without: exit {ro.returncode}; stable tests missing: {len(missing)}")
        ok = rw.returncode != 0 and ro.returncode == 0 and not missing
        if not ok:
            print("NOT CONFIRMED", (rw.stderr or rw.stdout)[-300:], (ro.stderr or ro.stdout)[-300:], missing[:3])
            return 1
        dest = os.path.join(ROOT, "seeded", sid)
        os.makedirs(dest, exist_ok=True)
        shutil.copy(patch, os.path.join(dest, "patch.diff"))
        shutil.copy(demo, os.path.join(dest, "demo.py"))
        readme = os.path.join(wt, "seed", "README.md")
        if os.path.exists(readme):
            shutil.copy(readme, os.path.join(dest, "README.md"))
        meta = {"id": sid, "property": prop, "needs": a.needs,
                "confirmed": {"demo_with_change_exit": rw.returncode, "demo_without_change_exit": ro.returncode,
                              "stable_pass_tests_still_passing": 87 - len(missing),
                              "how": "tools/seeded.py verify: patch applied to a scratch copy of /repo/hta; demo run with PYTHONPATH=<copy> and with PYTHONPATH=/repo; pinned test suite run against the copy"}}
        json.dump(meta, open(os.path.join(dest, "meta.json"), "w"), indent=1)
        print("stored", dest)
        return 0
    finally:
        shutil.rmtree(d, ignore_errors=True)


def cmd_recheck(a):
    """Re-confirm every stored seed against the current /repo: the patch must apply and the demo must still fail with it
    and pass without it.  A seed whose demo no longer fails was neutralised by a later repair of /repo (recorded in meta)."""
    for mf in sorted(glob.glob(os.path.join(ROOT, "seeded", "*", "meta.json"))):
        meta = json.load(open(mf))
        sd = os.path.dirname(mf)
        try:
            d = scratch_with_patch(os.path.join(sd, "patch.diff"))
        except SystemExit as e:
            meta["current_tree"] = {"status": "patch no longer applies", "detail": str(e)[:200]}
            json.dump(meta, open(mf, "w"), indent=1)
            print(meta["id"], "PATCH-DOES-NOT-APPLY")
            continue
        try:
            rw = subprocess.run([PY, os.path.join(sd, "demo.py")], env=dict(os.environ, PYTHONPATH=d), capture_output=True, text=True, cwd=d)
            ro = subprocess.run([PY, os.path.join(sd, "demo.py")], env=dict(os.environ, PYTHONPATH=REPO), capture_output=True, text=True, cwd=d)
            ok = rw.returncode != 0 and ro.returncode == 0
            meta["current_tree"] = {"status": "breaks the property" if ok else "neutralised by a later repair of /repo (demo no longer fails with the patch)" if rw.returncode == 0 else "demo fails on the unchanged tree",
                                    "demo_with_change_exit": rw.returncode, "demo_without_change_exit": ro.returncode}
            json.dump(meta, open(mf, "w"), indent=1)
            print(f"{meta['id']:50s} {'VALID' if ok else 'NEUTRALISED' if rw.returncode == 0 else 'DEMO-FAILS-ON-TREE'}")
        finally:
            shutil.rmtree(d, ignore_errors=True)
    return 0


def cmd_run(a):
    seeds = sorted(glob.glob(os.path.join(ROOT, "seeded", "*", "meta.json")))
    bad = 0
    for mf in seeds:
        meta = json.load(open(mf))
        if a.only and meta["id"] not in a.only.split(","):
            continue
        if meta.get("current_tree", {}).get("status", "breaks the property") != "breaks the property":
            print(f"{meta['id']:44s} skipped: {meta['current_tree']['status']}")
            continue
        d = scratch_with_patch(os.path.join(os.path.dirname(mf), "patch.diff"))
        try:
            props = [meta["property"]] + (meta.get("also_check", []) if not a.all_checks else [f"C{i:02d}" for i in range(1, 21)])
            res = {}
            for p in dict.fromkeys(props):
                rc, dt, info = run_check(d, p, a.tier, a.seed)
                res[p] = rc
                print(f"{meta['id']:44s} {p} {'CAUGHT' if rc == 1 else 'MISSED' if rc == 0 else 'HARNESS-ERR'} {dt:6.1f}s {info}")
                sys.stdout.flush()
                if a.save_witness and rc == 1 and p == meta["property"]:
                    # keep the shrunk failing input as a committed regression input (it passes on the unchanged tree)
                    fails = sorted(glob.glob(os.path.join(d, "fail", "*.json")))
                    if fails:
                        w = json.load(open(fails[0]))
                        w["detail"] = f"regression input: shrunk witness of seeded change {meta['id']} ({meta.get('needs', '')})"
                        dest = os.path.join(ROOT, "replays", f"{p}-seed-{meta['id'].split('-', 1)[1]}.json")
                        if not os.path.exists(dest) and not info.startswith("VIOLATION property=%s replay=replays/" % p):
                            # (a catch through an already committed regression input needs no further witness)
                            json.dump(w, open(dest, "w"), indent=1)
                            print("   witness ->", dest)
            if res.get(meta["property"]) != 1:
                bad += 1
        finally:
            shutil.rmtree(d, ignore_errors=True)
    return 1 if bad else 0


ap = argparse.ArgumentParser()
sub = ap.add_subparsers(dest="cmd")
v = sub.add_parser("verify"); v.add_argument("worktree"); v.add_argument("seed_id"); v.add_argument("property"); v.add_argument("--needs", default="")
sub.add_parser("recheck")
r = sub.add_parser("run"); r.add_argument("--only"); r.add_argument("--tier", default="quick"); r.add_argument("--all-checks", action="store_true"); r.add_argument("--save-witness", action="store_true"); r.add_argument("--seed", type=int, default=1)
a = ap.parse_args()
sys.exit(cmd_verify(a) if a.cmd == "verify" else cmd_recheck(a) if a.cmd == "recheck" else cmd_run(a))
