"""C18 Trace filters are pure row selections with the documented predicates."""
from __future__ import annotations

import re
from typing import Any, Dict, List, Optional

from hypothesis import strategies as st

from hv.core import Campaign, CaseInfo, hta_call, require

ID = "C18"
RULE = ("G-frame: hand-built event frames (0-12 rows; optional iteration/rank/stream columns; names encoded, decoded into "
        "s_name/s_cat, or decoded in place; str and object dtype) x every filter class (IterationFilter, IterationIndexFilter, "
        "FirstIterationFilter, RankFilter, TimeRangeFilter, NameFilter with/without symbol table, GPUKernelFilter, "
        "CPUOperatorFilter, MemCopyEventFilter, ZeroDurationFilter, CompositeFilter of 0-4 members) x parameters. Oracle: pure "
        "Python predicate per class over the row dicts -> expected id list in input order; result ids, row contents and columns "
        "equal; input equals a deep copy taken before; composite == sequential == (row-local members) intersection in every "
        "drawn order; f(f(x)) == f(x). Non-trivial: the selection is a proper non-empty subset and the filter is a composite "
        "of >= 2 members. Distinct = distinct canonical case JSON.")
ASSUMPTIONS = [
    "a frame lacking the column a filter needs is returned unchanged (documented by the filters' warnings)",
    "IterationIndexFilter on a frame whose only iteration is -1 returns the frame unchanged (as coded and documented in the class)",
    "name patterns are regular expressions matched from the start of the name (re.match semantics)",
    "a symbol table is only combined with frames whose name column is encoded; a table containing a Memcpy name also contains gpu_memcpy",
    "without a symbol table the side filters use the fallback the code documents in its warning: device = stream>=0 and correlation>=0, host = stream==-1",
]

NAMES = ["aten::mm", "aten::add", "aten::addmm", "cudaLaunchKernel", "cudaMemcpyAsync", "ProfilerStep#3", "ProfilerStep#4",
         "gemm_kernel_a", "ncclKernel_AllReduce_RING_LL_Sum_float(ncclWorkElem)", "Memcpy DtoH (Device -> Pinned)",
         "Memcpy HtoD (Pageable -> Device)", "Event Sync", "Context Sync", "Stream Sync", "k_relu"]
CATS = ["cpu_op", "cuda_runtime", "user_annotation", "kernel", "gpu_memcpy", "cuda_sync"]
PATTERNS = ["aten::", "aten::a", "aten::mm$", ".*Kernel", "^nccl.*Kernel", "Memcpy", "Memcpy DtoH", ".*Sync", "Profiler", "k_",
            "nomatch", "", "cuda(Launch|Memcpy)", ".*mm", "Kernel", "mm", "add", "Sync", "DtoH", "Step#4"]
CAT_OF = {"aten::mm": "cpu_op", "aten::add": "cpu_op", "aten::addmm": "cpu_op", "cudaLaunchKernel": "cuda_runtime",
          "cudaMemcpyAsync": "cuda_runtime", "ProfilerStep#3": "user_annotation", "ProfilerStep#4": "user_annotation",
          "gemm_kernel_a": "kernel", "ncclKernel_AllReduce_RING_LL_Sum_float(ncclWorkElem)": "kernel",
          "Memcpy DtoH (Device -> Pinned)": "gpu_memcpy", "Memcpy HtoD (Pageable -> Device)": "gpu_memcpy",
          "Event Sync": "cuda_sync", "Context Sync": "cuda_sync", "Stream Sync": "cuda_sync", "k_relu": "kernel"}
DEVICE_NAMES = {"gemm_kernel_a", "ncclKernel_AllReduce_RING_LL_Sum_float(ncclWorkElem)", "Memcpy DtoH (Device -> Pinned)",
                "Memcpy HtoD (Pageable -> Device)", "Stream Sync", "k_relu"}


# ---- strategies ----------------------------------------------------------------------------------
@st.composite
def frame_desc(draw) -> Dict[str, Any]:
    n = draw(st.sampled_from([0, 1, 2, 3, 4, 5, 6, 6, 7, 8, 8, 9, 10, 11, 12]))
    sym_order = draw(st.permutations(NAMES + CATS))
    ids, cur = [], draw(st.sampled_from([0, 1, 10]))
    rows = []
    has_iter = draw(st.sampled_from([True, True, True, False]))
    has_rank = draw(st.sampled_from([True, True, False]))
    has_stream = draw(st.sampled_from([True, True, True, True, False]))
    iter_pool = draw(st.sampled_from([[-1], [-1, 3, 4], [3, 4, 7], [-1, 5], [0, 1, 2], [-1, 0]]))
    for _ in range(n):
        cur += draw(st.sampled_from([1, 1, 2, 5]))
        name = draw(st.sampled_from(NAMES))
        dev = name in DEVICE_NAMES
        stream = draw(st.sampled_from([7, 20, 0])) if dev else -1
        if name in ("Event Sync", "Context Sync"):
            stream = -1
        corr = draw(st.sampled_from([-1, 11, 12, 13, 14]))
        row = {"index": cur, "ts": draw(st.integers(0, 30)), "dur": draw(st.sampled_from([0, 0, 1, 2, 5, 10])),
               "name": name, "cat": CAT_OF[name], "pid": 1, "tid": stream if dev else 100, "correlation": corr}
        if has_stream:
            row["stream"] = stream
        if has_iter:
            row["iteration"] = draw(st.sampled_from(iter_pool))
        if has_rank:
            row["rank"] = draw(st.sampled_from([0, 1, 2]))
        rows.append(row)
    # frames of several ranks concatenated (what RankFilter is for): every rank numbers its events itself, so index labels
    # repeat across ranks
    dup = has_rank and n >= 2 and draw(st.sampled_from([True, True, False, False]))
    if dup:
        per_rank: Dict[int, int] = {}
        for row in rows:
            per_rank[row["rank"]] = per_rank.get(row["rank"], 0) + draw(st.sampled_from([1, 1, 2]))
            row["index"] = per_rank[row["rank"]]
    for i, row in enumerate(rows):
        row["_uid"] = i  # the row's position in the input frame: its identity for the oracle
    # s_name_only: only the name was decoded (an s_name column without an s_cat column)
    variant = draw(st.sampled_from(["encoded", "encoded", "s_name", "replace", "s_name_only"]))
    str_dtype = draw(st.sampled_from(["str", "object"]))
    return {"rows": rows, "sym_order": list(sym_order), "variant": variant, "str_dtype": str_dtype,
            "cols": {"iteration": has_iter, "rank": has_rank, "stream": has_stream}}


@st.composite
def simple_filter(draw, allow_positional: bool = True) -> Dict[str, Any]:
    kinds = ["iteration", "rank", "time", "name", "gpu", "cpu", "memcpy"]
    if allow_positional:
        kinds += ["iter_index", "first_iter"]
    k = draw(st.sampled_from(kinds))
    if k == "iteration":
        v = draw(st.one_of(st.sampled_from([-1, 0, 3, 4, 5, 7]), st.lists(st.sampled_from([-1, 0, 1, 3, 4, 7]), max_size=3)))
        return {"kind": k, "arg": v}
    if k == "iter_index":
        v = draw(st.one_of(st.sampled_from([0, 1, 2, 5]), st.lists(st.sampled_from([0, 1, 2, 3]), max_size=3)))
        return {"kind": k, "arg": v}
    if k == "first_iter":
        return {"kind": k}
    if k == "rank":
        v = draw(st.one_of(st.sampled_from([0, 1, 2, 9]), st.lists(st.sampled_from([0, 1, 2, 9]), max_size=3)))
        return {"kind": k, "arg": v}
    if k == "time":
        a = draw(st.integers(-2, 30))
        b = draw(st.integers(a, 42))
        return {"kind": k, "arg": [a, b]}
    if k == "name":
        return {"kind": k, "pattern": draw(st.sampled_from(PATTERNS)),
                "table": draw(st.sampled_from(["call", "ctor", "none", "both"]))}
    if k in ("gpu", "cpu"):
        return {"kind": k}
    return {"kind": "memcpy", "type": draw(st.sampled_from(["Memcpy DtoH (Device -> Pinned)", "Memcpy HtoD (Pageable -> Device)",
                                                           "Memcpy DtoD (Device -> Device)", "gemm_kernel_a"])),
            "table": draw(st.sampled_from(["call", "ctor"]))}


@st.composite
def filter_case(draw) -> Dict[str, Any]:
    frame = draw(frame_desc())
    mode = draw(st.sampled_from(["single", "composite", "composite", "zero_dur", "order_sensitive"]))
    pass_table = draw(st.sampled_from([True, True, False]))
    if frame["variant"] == "replace":
        pass_table = False
    if mode == "order_sensitive" and frame["rows"]:
        # a selective member first, then a positional one (n-th iteration present): the rows the first member keeps sit in
        # later iterations, the rows it drops in the earliest one, so the members' order decides the result
        first = draw(simple_filter(allow_positional=False).filter(lambda m: m["kind"] in ("name", "gpu", "cpu", "rank", "time")))
        second = draw(st.sampled_from([{"kind": "first_iter"}, {"kind": "iter_index", "arg": 0}, {"kind": "iter_index", "arg": [0, 1]},
                                       {"kind": "iter_index", "arg": 1}]))
        frame["cols"]["iteration"] = True
        its = draw(st.sampled_from([[3, 4, 7], [0, 1, 2], [5, 11], [10, 11, 12]]))
        for r in frame["rows"]:
            r.setdefault("iteration", its[0])
        kept, _ = model_apply(first, frame["rows"], frame["cols"], pass_table, frame["variant"])
        kept_ids = {r["_uid"] for r in kept}
        for r in frame["rows"]:
            late = r["_uid"] in kept_ids
            if draw(st.integers(0, 9)) == 0:
                late = not late  # some noise: the shape is usual, not guaranteed
            r["iteration"] = draw(st.sampled_from(its[1:])) if late else its[0]
        members = [first, second] + ([draw(simple_filter())] if draw(st.booleans()) else [])
        flt = {"kind": "composite", "members": members, "perm": list(draw(st.permutations(list(range(len(members))))))}
        return {"frame": frame, "filter": flt, "pass_table": pass_table}
    if mode == "order_sensitive":
        mode = "composite"
    if mode == "single":
        flt = draw(simple_filter())
    elif mode == "zero_dur":
        flt = {"kind": "zero_dur"}
    else:
        k = draw(st.sampled_from([0, 1, 2, 2, 2, 3, 3, 4]))
        members = [draw(simple_filter()) for _ in range(k)]
        flt = {"kind": "composite", "members": members,
               "perm": list(draw(st.permutations(list(range(len(members))))))}
    return {"frame": frame, "filter": flt, "pass_table": pass_table}


# ---- model ---------------------------------------------------------------------------------------
def _aslist(v):
    return [v] if isinstance(v, int) else list(v)


def uses_table(f: Dict[str, Any], pass_table: bool, variant: str) -> bool:
    if variant == "replace":
        return False
    if f["kind"] == "name":
        return pass_table or f["table"] in ("ctor", "both")
    return pass_table


def model_apply(f: Dict[str, Any], rows: List[Dict[str, Any]], cols: Dict[str, bool], pass_table: bool, variant: str,
                has_cols: bool = True) -> tuple:
    """Returns (selected rows, frame_has_columns).  has_cols False models the column-less empty frame."""
    k = f["kind"]
    if k == "iteration":
        if not (cols["iteration"] and has_cols):
            return rows, has_cols
        return [r for r in rows if r["iteration"] in _aslist(f["arg"])], has_cols
    if k in ("iter_index", "first_iter"):
        if not (cols["iteration"] and has_cols):
            return rows, has_cols
        idx = [0] if k == "first_iter" else _aslist(f["arg"])
        its = sorted({r["iteration"] for r in rows})
        if its == [-1]:
            return rows, has_cols
        if its and its[0] == -1:
            its = its[1:]
        chosen = [it for i, it in enumerate(its) if i in idx]
        if not chosen:
            return [], False
        return [r for r in rows if r["iteration"] in chosen], has_cols
    if k == "rank":
        if not (cols["rank"] and has_cols):
            return rows, has_cols
        return [r for r in rows if r["rank"] in _aslist(f["arg"])], has_cols
    if k == "time":
        if not has_cols:
            return rows, has_cols
        a, b = f["arg"]
        return [r for r in rows if r["ts"] >= a and r["ts"] + r["dur"] <= b], has_cols
    if k == "name":
        if not rows:
            return rows, has_cols
        if not uses_table(f, pass_table, variant) and variant == "encoded":
            return rows, has_cols  # no string column and no table: returned unchanged
        rx = re.compile(f["pattern"])
        return [r for r in rows if rx.match(r["name"])], has_cols
    if k in ("gpu", "cpu"):
        if not (cols["stream"] and has_cols):
            return rows, has_cols
        if uses_table(f, pass_table, variant):
            dev = lambda r: (r["stream"] >= 0 and r["correlation"] >= 0) or r["name"] in ("Event Sync", "Context Sync")  # noqa: E731
            return [r for r in rows if dev(r) == (k == "gpu")], has_cols
        if k == "gpu":
            return [r for r in rows if r["stream"] >= 0 and r["correlation"] >= 0], has_cols
        return [r for r in rows if r["stream"] == -1], has_cols
    if k == "memcpy":
        if not rows:
            return rows, has_cols
        if f["type"] not in NAMES:
            return [], False
        return [r for r in rows if r["name"] == f["type"] and r["cat"] == "gpu_memcpy"], has_cols
    if k == "zero_dur":
        return [r for r in rows if r["dur"] > 0], has_cols
    raise KeyError(k)


ROW_LOCAL = {"iteration", "rank", "time", "name", "gpu", "cpu", "memcpy", "zero_dur"}


# ---- code under test -----------------------------------------------------------------------------
def build_frame(fd: Dict[str, Any]):
    import pandas as pd
    from hta.common.trace_symbol_table import TraceSymbolTable

    st_ = TraceSymbolTable()
    st_.add_symbols(fd["sym_order"])
    rows = fd["rows"]
    for i, r in enumerate(rows):
        r.setdefault("_uid", i)  # inputs recorded before the identity column existed
    colnames = ["index", "_uid", "ts", "dur", "name", "cat", "pid", "tid", "correlation"] + \
               [c for c in ("stream", "iteration", "rank") if fd["cols"][c]]
    data = {c: [r[c] for r in rows] for c in colnames}
    df = pd.DataFrame(data)
    for c in colnames:
        if c not in ("name", "cat"):
            df[c] = df[c].astype("int64")
    dtype = "str" if fd["str_dtype"] == "str" else object
    if fd["variant"] in ("encoded", "s_name", "s_name_only"):
        df["name"] = pd.Series([st_.sym_index[r["name"]] for r in rows], dtype="int64")
        df["cat"] = pd.Series([st_.sym_index[r["cat"]] for r in rows], dtype="int64")
        if fd["variant"] == "s_name_only":
            df["s_name"] = pd.Series([r["name"] for r in rows], dtype=dtype)
        if fd["variant"] == "s_name":
            df["s_name"] = pd.Series([r["name"] for r in rows], dtype=dtype)
            df["s_cat"] = pd.Series([r["cat"] for r in rows], dtype=dtype)
    else:
        df["name"] = pd.Series([r["name"] for r in rows], dtype=dtype)
        df["cat"] = pd.Series([r["cat"] for r in rows], dtype=dtype)
    df = df.set_index("index", drop=False)
    df.index.names = [None]
    return df, st_


def build_filter(f: Dict[str, Any], table, variant: str):
    from hta.common import trace_filter as tf

    k = f["kind"]
    if k == "iteration":
        return tf.IterationFilter(f["arg"])
    if k == "iter_index":
        return tf.IterationIndexFilter(f["arg"])
    if k == "first_iter":
        return tf.FirstIterationFilter()
    if k == "rank":
        return tf.RankFilter(f["arg"])
    if k == "time":
        return tf.TimeRangeFilter(tuple(f["arg"]))
    if k == "name":
        ctor_table = table if (f["table"] in ("ctor", "both") and variant != "replace") else None
        return tf.NameFilter(f["pattern"], ctor_table)
    if k == "gpu":
        return tf.GPUKernelFilter()
    if k == "cpu":
        return tf.CPUOperatorFilter()
    if k == "memcpy":
        return tf.MemCopyEventFilter(f["type"], table if (f["table"] == "ctor" and variant != "replace") else None)
    if k == "zero_dur":
        return tf.ZeroDurationFilter
    if k == "composite":
        return tf.CompositeFilter([build_filter(m, table, variant) for m in f["members"]])
    raise KeyError(k)


def _ids(res) -> List[int]:
    """Identity (position in the input frame) of the returned rows, in returned order."""
    if "_uid" not in res.columns:
        return []
    return [int(i) for i in res["_uid"]]


def compare(res, df, want_rows: List[Dict[str, Any]], has_cols: bool, what: str) -> None:
    want_ids = [r["_uid"] for r in want_rows]
    require(_ids(res) == want_ids, f"{what}:selected_ids", lambda: f"want rows {want_ids}, got rows {_ids(res)} (positions in the input frame)")
    if want_ids and has_cols:
        exp = df.iloc[want_ids]
        require(list(res.columns) == list(df.columns), f"{what}:columns", lambda: f"{list(res.columns)} vs {list(df.columns)}")
        require(res.equals(exp), f"{what}:row_contents", lambda: f"got\n{res.to_string()}\nwant\n{exp.to_string()}")


def check(case: Dict[str, Any]) -> CaseInfo:
    from hv.hta_io import quiet

    quiet()
    fd, f, pass_table = case["frame"], case["filter"], case["pass_table"]
    variant = fd["variant"]
    rows, cols = fd["rows"], fd["cols"]
    df, table = build_frame(fd)
    before = df.copy(deep=True)
    call_table = table if pass_table else None
    # memcpy filter needs a table from somewhere; it falls back to an empty table otherwise (returns an empty frame)
    classes: List[str] = [f["kind"], "variant:" + variant]
    if len({r["index"] for r in rows}) < len(rows):
        classes.append("repeated_index_labels")

    def run(flt_desc, frame):
        flt = build_filter(flt_desc, table, variant)
        if flt_desc["kind"] == "zero_dur":
            return hta_call("filter:zero_dur", lambda: flt(frame))
        return hta_call("filter:" + flt_desc["kind"], lambda: flt(frame, call_table))

    def memcpy_effective(m):
        # MemCopyEventFilter with neither call table nor ctor table uses an empty table -> empty frame
        if m["kind"] == "memcpy" and not pass_table and (m["table"] != "ctor" or variant == "replace"):
            return dict(m, type="__absent__")
        return m

    def model(flt_desc, rws, has_cols=True):
        if flt_desc["kind"] == "composite":
            for m in flt_desc["members"]:
                rws, has_cols = model_apply(memcpy_effective(m), rws, cols, pass_table, variant, has_cols)
            return rws, has_cols
        return model_apply(memcpy_effective(flt_desc), rws, cols, pass_table, variant, has_cols)

    res = run(f, df)
    want, has_cols = model(f, rows)
    compare(res, before, want, has_cols, "result")
    require(df.equals(before) and list(df.columns) == list(before.columns) and list(df.index) == list(before.index)
            and all(df.dtypes == before.dtypes), "input_unmodified", lambda: f"before\n{before.to_string()}\nafter\n{df.to_string()}")
    members = f["members"] if f["kind"] == "composite" else [f]
    classes += [m["kind"] for m in members]
    row_local = all(m["kind"] in ROW_LOCAL for m in members)
    if f["kind"] == "composite":
        classes.append(f"members={min(len(members), 3)}")
        # sequential application
        cur = df
        for m in members:
            cur = run(m, cur)
        require(_ids(cur) == _ids(res), "composite:equals_sequence", lambda: f"{_ids(cur)} vs {_ids(res)}")
        # does the order of the members matter here?  a positional member (n-th iteration present) placed after a member that
        # removed every row of some earlier iteration sees a different set of iterations than the input has
        if cols.get("iteration"):
            rws_k, hc = rows, True
            its0 = sorted({r["iteration"] for r in rows if r["iteration"] >= 0})
            for m in members:
                if m["kind"] in ("iter_index", "first_iter") and hc:
                    its_k = sorted({r["iteration"] for r in rws_k if r["iteration"] >= 0})
                    if its_k and its_k != its0 and its_k[0] != its0[0]:
                        classes.append("positional_member_after_a_member_that_removed_the_first_iteration")
                rws_k, hc = model_apply(memcpy_effective(m), rws_k, cols, pass_table, variant, hc)
        if row_local and members:
            classes.append("row_local_composite")
            # intersection of the members' own selections, in the drawn order
            inter = None
            for m in members:
                sel, _ = model(m, rows)
                s = {r["_uid"] for r in sel}
                inter = s if inter is None else inter & s
            require(set(_ids(res)) == inter, "composite:intersection", lambda: f"{_ids(res)} vs {sorted(inter)}")
            perm_f = dict(f, members=[members[i] for i in f["perm"]])
            res_p = run(perm_f, df)
            require(_ids(res_p) == _ids(res), "composite:order_independent", lambda: f"{_ids(res_p)} vs {_ids(res)}")
    if row_local:
        again = run(f, res)
        require(_ids(again) == _ids(res), "idempotent", lambda: f"{_ids(again)} vs {_ids(res)}")
    # one filter object reused with another frame/table: same rows encoded with a different id assignment
    if pass_table and variant != "replace" and f["kind"] != "zero_dur":
        fd2 = dict(fd, sym_order=list(reversed(fd["sym_order"])))
        df2, table2 = build_frame(fd2)
        flt_obj = build_filter(f, table, variant)
        first = hta_call("filter(reused, first call)", lambda: flt_obj(df, table))
        second = hta_call("filter(reused, second call)", lambda: flt_obj(df2, table2))
        require(_ids(first) == _ids(res), "reuse:first_call", lambda: f"{_ids(first)} vs {_ids(res)}")
        ctor_bound = any(m["kind"] in ("name", "memcpy") and m.get("table") in ("ctor", "both") for m in members)
        if not ctor_bound or True:
            # a table given at call time takes precedence over one bound in the constructor (documented in the filters)
            require(_ids(second) == _ids(res), "reuse:same_object_other_symbol_table",
                    lambda: f"second call with a re-numbered table selected {_ids(second)}, expected {_ids(res)}")
        classes.append("filter_object_reused_with_other_table")
    proper = 0 < len(want) < len(rows)
    if proper:
        classes.append("proper_subset")
    if not want:
        classes.append("empty_result")
    if pass_table:
        classes.append("with_table")
    if variant != "encoded" and any(m["kind"] == "name" for m in members):
        classes.append("name_on_decoded")
    return CaseInfo(nontrivial=proper and f["kind"] == "composite" and len(members) >= 2, classes=classes)


def view(case):
    return {"filter": case["filter"], "pass_table": case["pass_table"], "variant": case["frame"]["variant"],
            "rows": [[r["index"], r["ts"], r["dur"], r["name"], r.get("stream"), r.get("iteration"), r.get("rank")]
                     for r in case["frame"]["rows"]]}


def campaigns(tier: str) -> List[Campaign]:
    return [Campaign("filters", filter_case(), check, quick=4000, thorough=240000, quick_shards=8, fuzz_runs=80000,
                     required_classes={"proper_subset": 0.15, "row_local_composite": 0.08, "positional_member_after_a_member_that_removed_the_first_iteration": 0.02, "repeated_index_labels": 0.05, "name_on_decoded": 0.025,
                                       "name": 0.02, "gpu": 0.02, "memcpy": 0.02, "iter_index": 0.02, "time": 0.02,
                                       "filter_object_reused_with_other_table": 0.2},
                     sample_view=view)]
