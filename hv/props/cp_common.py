"""Shared machinery of the critical-path properties C08, C09, C10, C19, C20: the case strategy, the
pure-Python model of the analysed window and the driver that runs the analysis."""
from __future__ import annotations

import os
from contextlib import contextmanager
from typing import Any, Dict, List, Optional, Set, Tuple

from hypothesis import strategies as st

from hv.core import Violation, hta_call, require
from hv.gen import vocab
from hv.gen.files import write_case
from hv.gen.kineto_sim import Opts, sim_case
from hv.model.raw import Row, complete_rows, is_device, links
from hv.model.trace import kept_after_load

NODE_CATS = ("cpu_op", "cuda_runtime", "cuda_driver")
# host calls that block until device work has finished (CUDA runtime API semantics)
BLOCKING_CALLS = {"cudaDeviceSynchronize", "cudaStreamSynchronize", "cudaEventQuery", "cudaEventSynchronize", "cudaMemcpy",
                  "cudaMemcpyAsync"}
SYNC_CALLS = {"cudaDeviceSynchronize", "cudaStreamSynchronize", "cudaEventSynchronize"}
ANNOTATION_CHOICES = ["", "ProfilerStep", "forward", "loss", "optimizer", "data_loading", "u_block_a", "u_block_b", "ProfilerStep#"]

CP_OPTS = dict(steps=[0, 1, 2, 3, 3], w_launch=7, w_sync=3, w_op=4, w_rt=1, max_top=5, streams=3, second_thread=True,
               event_sync=False, lead_op=False, ensure_kernel=False, kdurs=[1, 2, 4, 7, 12, 20, 30], first_op_children=True, annotation_weight=2, max_depth=4, cuda_events=True, align_ends=True, python_frames=True, fractional_stamps=True, unrounded=True)


class Window:
    """Model of what critical_path_analysis() analyses for one rank."""

    def __init__(self, events: List[Dict[str, Any]], annotation: str, inst: Any) -> None:
        all_rows = complete_rows(events)
        keep, _ = kept_after_load(all_rows, include_last=False)
        self.rows = [r for r in all_rows if r.id in keep]
        self.by_id = {r.id: r for r in self.rows}
        self.lk = {i: (v if v in self.by_id else 0) for i, v in links(all_rows).items() if i in self.by_id}
        self.annotation = annotation
        self.inst = inst
        self.valid = True
        if annotation == "":
            self.start = min(r.ts for r in self.rows)
            self.end = max(r.end for r in self.rows)
        else:
            matches = [r for r in self.rows if annotation in r.name]
            lo, hi = (0, 0) if inst is None else (inst, inst) if isinstance(inst, int) else tuple(inst)
            sel = matches[lo: hi + 1]
            if not sel:
                self.valid = False
                return
            self.start = min(r.ts for r in sel)
            self.end = max(r.end for r in sel)
        self.host = [r for r in self.rows if r.stream == -1 and self.start <= r.ts <= self.end and r.dur > 0]
        host_ids = {r.id for r in self.host}
        self.device = [r for r in self.rows if r.stream != -1 and self.lk[r.id] > 0 and self.lk[r.id] in host_ids
                       and not is_device(self.by_id[self.lk[r.id]])]
        # "Stream Wait Event" records are analysed wherever they are (the next kernel on their stream may depend on them)
        dev_ids = {r.id for r in self.device}
        self.device += [r for r in self.rows if r.stream != -1 and r.name == "Stream Wait Event" and r.id not in dev_ids]
        self.clipped = {r.id: r for r in self.host + self.device}
        self.analysed = {r.id: r for r in self.host if r.cat in NODE_CATS}
        self.analysed.update({r.id: r for r in self.device})

    def has_positive_weight(self) -> bool:
        """Sufficient condition for a critical path of positive weight: an analysed kernel of positive length, or an
        analysed non-blocking host event of positive length that has no event nested inside it."""
        if any(k.dur > 0 for k in self.kernels()):
            return True
        for r in self.analysed.values():
            if r.stream != -1 or r.name in BLOCKING_CALLS or r.dur <= 0:
                continue
            nested = [x for x in self.host if x.id != r.id and (x.pid, x.tid) == (r.pid, r.tid) and r.ts <= x.ts and x.end <= r.end]
            if not nested:
                return True
        return False

    def kernels(self) -> List[Row]:
        """analysed device activities that are not synchronisation records"""
        return [r for r in self.device if r.cat != "cuda_sync"]


@st.composite
def cp_case(draw, **over: Any) -> Dict[str, Any]:
    o = Opts(**{**CP_OPTS, **over})
    if o.faults:
        pass
    case = draw(sim_case(o, max_ranks=2))
    # strip the one fault the CP domain excludes (an activity without any correlation id is fine for HTA but its
    # trimming fate is open, see C12) - nothing to do: links simply stay 0.
    rank = draw(st.sampled_from([r["rank"] for r in case["ranks"]]))
    events = next(r["events"] for r in case["ranks"] if r["rank"] == rank)
    # candidate windows that are valid for this trace (annotation present, non-empty instance range, positive weight)
    names = sorted({r.name for r in complete_rows(events) if r.cat == "user_annotation"})
    anns = sorted({"ProfilerStep" if n.startswith("ProfilerStep") else n for n in names})
    cands: List[Tuple[str, Any]] = []
    for a in anns:
        for inst_c in (None, 0, 1, 2, [0, 1], [1, 2], [0, 2]):
            wc = Window(events, a, inst_c)
            if wc.valid and wc.analysed and wc.has_positive_weight():
                cands.append((a, inst_c))
    choice = draw(st.sampled_from(cands + cands + [("", None)])) if cands else ("", None)
    ann, inst = choice
    w = Window(events, ann, inst)
    if not w.valid or not w.analysed or not w.has_positive_weight():
        ann, inst = "", None
        w = Window(events, ann, inst)
    from hv.hta_io import prelude_strategy

    case["prelude"] = draw(prelude_strategy())
    case["params"] = {"rank": rank, "annotation": ann, "instance": inst,
                      "zero_weight_launch_edges": draw(st.sampled_from([False, True])),
                      # CRITICAL_PATH_STRICT_NEG_WEIGHT_CHECK=1 only changes how edges of weight <= -1 are treated; causally
                      # consistent traces have none, so the analysis must succeed and give the same graph with it
                      "strict_negative_weight_check": draw(st.sampled_from([False, False, False, True]))}
    return case


@contextmanager
def env_flag(name: str, on: bool):
    old = os.environ.get(name)
    os.environ[name] = "1" if on else "0"
    try:
        yield
    finally:
        if old is None:
            os.environ.pop(name, None)
        else:
            os.environ[name] = old


class CPRun:
    """Result of running the analysis on a case inside a scratch directory."""

    def __init__(self, case: Dict[str, Any], directory: str) -> None:
        from hv.hta_io import load_analysis

        p = case["params"]
        self.case = case
        self.dir = directory
        self.files = write_case(case, directory)
        self.ta = load_analysis(self.files, directory, mp=case.get("mp", False), prelude=case.get("prelude"))
        self.rank = p["rank"]
        self.events = next(r["events"] for r in case["ranks"] if r["rank"] == self.rank)
        inst = p["instance"]
        self.inst = tuple(inst) if isinstance(inst, list) else inst
        self.window = Window(self.events, p["annotation"], inst)
        self.min_ts = self.ta.t.min_ts if case.get("unrounded") else int(self.ta.t.min_ts)
        with env_flag("CRITICAL_PATH_ADD_ZERO_WEIGHT_LAUNCH_EDGE", p["zero_weight_launch_edges"]), \
                env_flag("CRITICAL_PATH_STRICT_NEG_WEIGHT_CHECK", p.get("strict_negative_weight_check", False)):
            res = hta_call("critical_path_analysis",
                           lambda: self.ta.critical_path_analysis(rank=self.rank, annotation=p["annotation"], instance_id=self.inst))
        require(res is not None and isinstance(res, tuple) and len(res) == 2, "cp:returns_graph", lambda: repr(res))
        self.graph, self.ok = res
        require(self.ok is True, "cp:succeeds", lambda: f"success flag {self.ok}")


def edge_objects(graph) -> List[Tuple[int, int, Any, Any]]:
    return [(u, v, graph.edges[u, v]["object"], graph.edges[u, v]["weight"]) for u, v in graph.edges]


def topo_longest_path(nodes: List[int], edges: List[Tuple[int, int, float]]) -> Tuple[float, bool]:
    """(weight of a maximum-weight path, acyclic?) by an own Kahn pass - not networkx."""
    succ: Dict[int, List[Tuple[int, float]]] = {n: [] for n in nodes}
    indeg = {n: 0 for n in nodes}
    for u, v, w in edges:
        succ[u].append((v, w))
        indeg[v] += 1
    order = [n for n in nodes if indeg[n] == 0]
    best = {n: 0.0 for n in nodes}
    i = 0
    while i < len(order):
        u = order[i]
        i += 1
        for v, w in succ[u]:
            if best[u] + w > best[v]:
                best[v] = best[u] + w
            indeg[v] -= 1
            if indeg[v] == 0:
                order.append(v)
    acyclic = len(order) == len(nodes)
    return (max(best.values()) if best else 0.0), acyclic


def heaviest_path_ties(nodes: List[int], edges: List[Tuple[int, int, float]]) -> int:
    """Number of nodes lying on some maximum-weight path that are reached with that weight through >= 2 different
    predecessors (the analysis may pick either; a restored or re-used graph must report the one it picked)."""
    succ: Dict[int, List[Tuple[int, float]]] = {n: [] for n in nodes}
    pred: Dict[int, List[Tuple[int, float]]] = {n: [] for n in nodes}
    indeg = {n: 0 for n in nodes}
    for u, v, w in edges:
        succ[u].append((v, w))
        pred[v].append((u, w))
        indeg[v] += 1
    order = [n for n in nodes if indeg[n] == 0]
    i = 0
    while i < len(order):
        for v, _ in succ[order[i]]:
            indeg[v] -= 1
            if indeg[v] == 0:
                order.append(v)
        i += 1
    if len(order) != len(nodes):
        return 0
    best = {n: 0.0 for n in nodes}
    for u in order:
        for v, w in succ[u]:
            best[v] = max(best[v], best[u] + w)
    back = {n: 0.0 for n in nodes}
    for u in reversed(order):
        for v, w in succ[u]:
            back[u] = max(back[u], back[v] + w)
    top = max(best.values()) if best else 0.0
    n_ties = 0
    for v in nodes:
        if best[v] > 0 and abs(best[v] + back[v] - top) < 1e-9:
            tight = [u for u, w in pred[v] if abs(best[u] + w - best[v]) < 1e-9]
            if len(tight) >= 2:
                n_ties += 1
    return n_ties


def view(case):
    return {"params": case["params"], "ranks": [
        {"rank": r["rank"], "rows[id,cat,name,ts,dur,stream,corr]": [[x.id, x.cat, x.name, x.ts, x.dur, x.stream, x.correlation]
                                                                    for x in complete_rows(r["events"])]}
        for r in case["ranks"] if r["rank"] == case["params"]["rank"]]}
