"""Thin helpers around the code under test (the only harness module, besides props/, importing hta)."""
from __future__ import annotations

import logging
import os
from typing import Any, Dict, Optional

from hv.core import hta_call

_quiet_done = False


def quiet() -> None:
    global _quiet_done
    if _quiet_done:
        return
    _quiet_done = True
    logging.disable(logging.CRITICAL)
    import warnings

    warnings.filterwarnings("ignore")
    try:
        import pandas as pd

        pd.set_option("mode.chained_assignment", None)
    except Exception:  # noqa: BLE001
        pass


def load_trace(files: Dict[int, str], directory: str, include_last: bool = False, mp: bool = False,
               parse_only: bool = False):
    """Trace object after parse_traces() (parse_only) or load_traces()."""
    quiet()
    from hta.common.trace import Trace

    def _do():
        t = Trace(dict(files), directory)
        if parse_only:
            t.parse_traces(use_multiprocessing=mp)
        else:
            t.load_traces(include_last_profiler_step=include_last, use_multiprocessing=mp)
        return t

    return hta_call("load_traces" if not parse_only else "parse_traces", _do)


def load_analysis(files: Dict[int, str], directory: str, include_last: bool = False, mp: bool = False, prelude=None):
    """A TraceAnalysis whose traces were loaded like TraceAnalysis.__init__ does, with control over
    the use_multiprocessing flag (the constructor always uses the default)."""
    quiet()
    from hta.trace_analysis import TraceAnalysis

    if mp:
        ta = hta_call("TraceAnalysis", lambda: TraceAnalysis(trace_files=dict(files), trace_dir=directory,
                                                             include_last_profiler_step=include_last))
    else:
        t = load_trace(files, directory, include_last, mp=False)
        ta = TraceAnalysis.__new__(TraceAnalysis)
        ta.t = t
    run_prelude(ta, prelude)
    return ta


# ---- prelude: other analyses run on the same object before the analysis under test ------------------
PRELUDE_OPS = ["call_graph", "call_graph_cp", "decode", "kernel_breakdown_mem", "temporal", "overlap", "launch_stats", "queue",
               "critical_path", "user_annotations", "call_graph_twice", "critical_path_first_step", "critical_path_first_step",
               "idle", "membw", "annotation_breakdown", "stragglers", "freq_seq", "counters_file", "blocked_queue", "cp_overlay"]


def run_prelude(ta, ops) -> None:
    """Run other public analyses on the same TraceAnalysis object first.  Several of them add columns to, or otherwise touch,
    the shared trace frames; the property under test must hold regardless of what ran before.  Failures of a prelude
    operation are not this check's business and are ignored."""
    quiet()
    ranks = sorted(ta.t.traces)
    for op in ops or []:
        try:
            if op == "call_graph":
                from hta.common.trace_call_graph import CallGraph

                CallGraph(ta.t)
            elif op == "call_graph_twice":
                from hta.common.trace_call_graph import CallGraph

                CallGraph(ta.t)
                CallGraph(ta.t)
            elif op == "call_graph_cp":
                from hta.common.call_stack import CallGraph as CallGraphA

                CallGraphA(ta.t)
            elif op == "decode":
                ta.t.decode_symbol_ids(use_shorten_name=True)
            elif op == "kernel_breakdown_mem":
                ta.get_gpu_kernel_breakdown(visualize=False, include_memory_kernels=True, num_kernels=2)
            elif op == "temporal":
                ta.get_temporal_breakdown(visualize=False)
            elif op == "overlap":
                ta.get_comm_comp_overlap(visualize=False)
            elif op == "launch_stats":
                ta.get_cuda_kernel_launch_stats(ranks=ranks, visualize=False)
            elif op == "queue":
                ta.get_queue_length_time_series(ranks=ranks)
            elif op == "critical_path":
                ta.critical_path_analysis(rank=ranks[0], annotation="", instance_id=None)
            elif op == "critical_path_first_step":
                # a narrow window first: a later analysis of another window must not see a clipped frame
                ta.critical_path_analysis(rank=ranks[0], annotation="ProfilerStep", instance_id=0)
                if len(ranks) > 1:
                    ta.critical_path_analysis(rank=ranks[-1], annotation="ProfilerStep", instance_id=0)
            elif op == "user_annotations":
                ta.get_gpu_kernels_with_user_annotations(rank=ranks[0])
            elif op == "idle":
                ta.get_idle_time_breakdown(ranks=ranks, visualize=False, show_idle_interval_stats=True)
            elif op == "membw":
                ta.get_memory_bw_time_series(ranks=ranks)
                ta.get_memory_bw_summary(ranks=ranks)
            elif op == "annotation_breakdown":
                ta.get_gpu_user_annotation_breakdown(visualize=False)
                ta.get_gpu_user_annotation_breakdown(use_gpu_annotation=False, visualize=False)
            elif op == "stragglers":
                ta.get_potential_stragglers()
            elif op == "blocked_queue":
                ta.get_time_spent_blocked_on_full_queue(ta.get_queue_length_time_series(ranks=ranks), max_queue_length=1)
            elif op == "freq_seq":
                import tempfile

                with tempfile.TemporaryDirectory(dir=os.environ.get("HV_TMP")) as out:
                    ta.get_frequent_cuda_kernel_sequences(operator_name="aten::linear", output_dir=out, min_pattern_len=1,
                                                          rank=ranks[0], top_k=2)
            elif op == "counters_file":
                ta.generate_trace_with_counters(ranks=ranks[:1], output_suffix="_prelude")  # written next to the trace file
            elif op == "cp_overlay":
                import tempfile

                g, ok = ta.critical_path_analysis(rank=ranks[0], annotation="", instance_id=None)
                if ok:
                    with tempfile.TemporaryDirectory(dir=os.environ.get("HV_TMP")) as out:
                        ta.overlay_critical_path_analysis(ranks[0], g, output_dir=out)
        except Exception:  # noqa: BLE001
            pass


def prelude_strategy():
    from hypothesis import strategies as st

    return st.one_of(st.just([]), st.just([]), st.lists(st.sampled_from(PRELUDE_OPS), min_size=1, max_size=2))
