#!/usr/bin/env python3
"""Compare every generator floor (Campaign.required_classes) with the class frequencies observed in evidence
directories of several runs; report floors that are closer than a factor to the smallest observed frequency.
usage: tools/floors.py <evidence dir> [<evidence dir> ...] [--factor 0.6]"""
import importlib, json, os, sys
sys.path.insert(0, os.path.join(os.path.dirname(os.path.abspath(__file__)), ".."))
dirs = [a for a in sys.argv[1:] if not a.startswith("--")]
factor = float(sys.argv[sys.argv.index("--factor") + 1]) if "--factor" in sys.argv else 0.6
bad = 0
for n in range(1, 21):
    pid = f"C{n:02d}"
    mod = importlib.import_module(f"hv.props.c{n:02d}")
    for tier in ("quick",):
        for c in mod.campaigns(tier):
            for cls, floor in (c.required_classes or {}).items():
                fr = []
                for d in dirs:
                    p = os.path.join(d, pid + ".json")
                    if not os.path.exists(p):
                        continue
                    camp = json.load(open(p))["coverage"]["campaigns"].get(c.name)
                    if camp:
                        tot = camp.get("cases") or camp.get("evaluations") or camp.get("n")
                        cnt = camp["classes"].get(cls, 0)
                        fr.append(cnt / tot if tot else 0)
                if fr and floor > factor * min(fr):
                    bad += 1
                    print(f"{pid} {c.name:14s} {cls:45s} floor {floor:.3f} observed min {min(fr):.3f} max {max(fr):.3f}")
print("tight floors:", bad)
