"""C13 Call-graph attributes (depth, height, kernel totals) agree with the tree."""
from __future__ import annotations

import os
from typing import Any, Dict, List, Optional, Set, Tuple

from hypothesis import strategies as st

from hv.core import Campaign, CaseInfo, hta_call, require
from hv.gen.files import scratch_dir, write_case
from hv.gen.kineto_sim import Opts, sim_case
from hv.gen.spans import model_parents
from hv.model.raw import Row, complete_rows, is_device, links
from hv.model.trace import kept_after_load

ID = "C13"
RULE = ("G-sim traces (1-2 ranks, 1-3 host threads incl. exactly one step thread + one autograd thread with/without '## backward ##' "
        "annotations and autograd operators inside / straddling / outside them, launches from several children, dropped launches "
        "and activities, 0-3 profiler steps) loaded through the public entry point (shifted times), then CallGraph(trace). "
        "Oracle: model tree = innermost-enclosing forest per host thread + device children from the links + the stated "
        "re-parenting of the autograd thread's top-level operators; compare parent (negative = root), depth = parent depth + 1, "
        "height, num_kernels, kernel_dur_sum, first_kernel_start, last_kernel_end, kernel_span for every host event, in loaded "
        "time; get_stack_of_node(i) must contain descendants and ancestors. Zero-duration operators by validity predicate. "
        "Non-trivial: model depth >= 3 and an operator with kernels from >= 2 children (multi-thread cases: a re-parented "
        "operator). Distinct = distinct canonical case JSON.")
ASSUMPTIONS = [
    "host events of one thread are properly nested; runtime calls have positive duration (zero-duration operators are leaves)",
    "'## backward ##' annotations are not nested in each other; an autograd operator lies within at most one of them",
    "synchronisation records on stream -1 form no part of the asserted tree",
    "device activity = record on a stream > 0 linked to a host call (includes Stream Sync records)",
]


class Tree:
    def __init__(self, rows: List[Row], lk: Dict[int, int]) -> None:
        self.rows = rows
        self.by_id = {r.id: r for r in rows}
        self.lk = lk
        self.parent: Dict[int, int] = {}
        self.device: Set[int] = set()
        self.threads: Dict[Tuple[Any, Any], List[Row]] = {}
        for r in rows:
            if r.stream == -1 and not is_device(r):
                self.threads.setdefault((r.pid, r.tid), []).append(r)

    def children(self) -> Dict[int, List[int]]:
        ch: Dict[int, List[int]] = {}
        for c, p in self.parent.items():
            ch.setdefault(p, []).append(c)
        return ch


def thread_label(rows: List[Row]) -> str:
    if any(r.name.startswith("ProfilerStep#") for r in rows):
        return "main"
    if any("autograd::" in r.name for r in rows):
        return "bwd"
    return "other"


def check_rank(rows_all: List[Row], df, shift: int, cg, rank: int, classes: List[str]) -> bool:
    keep, free = kept_after_load(rows_all, include_last=False)
    keep = keep | (free & {int(i) for i in df["index"]})  # fate of activities without any correlation id is open (C12)
    rows = [r for r in rows_all if r.id in keep]
    by_id = {r.id: r for r in rows}
    lk_all = links(rows_all)
    lk = {r.id: (lk_all[r.id] if lk_all[r.id] in by_id else 0) for r in rows}
    tree = Tree(rows, lk)
    got_parent = {int(i): int(p) for i, p in zip(df["index"], df["parent"])}
    got = {c: {int(i): v for i, v in zip(df["index"], df[c])} for c in
           ("depth", "height", "num_kernels", "kernel_dur_sum", "first_kernel_start", "last_kernel_end", "kernel_span")}
    require(sorted(got_parent) == sorted(by_id), "rows", lambda: f"{sorted(got_parent)} vs {sorted(by_id)}")
    # ---- host forests ----
    zero_rows: List[Row] = []
    for key, trows in tree.threads.items():
        mp = model_parents([[r.id, r.ts, r.dur] for r in trows])
        for r in trows:
            if r.dur > 0:
                tree.parent[r.id] = mp[r.id]
            else:
                zero_rows.append(r)
    # zero-duration operators: accept the reported parent if it is a legal placement
    for z in zero_rows:
        p = got_parent[z.id]
        if p >= 0 and p in by_id and (by_id[p].pid, by_id[p].tid) != (z.pid, z.tid):
            p = -1  # reported under an event of another thread: only the re-parenting rule below can justify that
        if p >= 0:
            require(p in by_id and by_id[p].ts <= z.ts <= by_id[p].end,
                    "zero:parent_contains_instant", lambda: f"rank {rank}: zero event {z.id}@{z.ts} under {p}")
        tree.parent[z.id] = p if p >= 0 else -1
    for z in zero_rows:  # every strict container must be an ancestor
        anc, j = set(), z.id
        while tree.parent.get(j, -1) >= 0:
            j = tree.parent[j]
            anc.add(j)
        for r in tree.threads[(z.pid, z.tid)]:
            if r.dur > 0 and r.ts < z.ts < r.end:
                require(r.id in anc, "zero:under_strict_container", lambda: f"rank {rank}: zero {z.id}@{z.ts} not under {r.id}")
    # ---- device children ----
    for r in rows:
        if r.stream > 0 and lk[r.id] > 0 and lk[r.id] in tree.parent:
            tree.parent[r.id] = lk[r.id]
            tree.device.add(r.id)
    # ---- autograd re-parenting ----
    labels = {key: thread_label(trows) for key, trows in tree.threads.items()}
    mains = [k for k, v in labels.items() if v == "main"]
    bwds = [k for k, v in labels.items() if v == "bwd"]
    reparented = 0
    if len(mains) == 1 and len(bwds) == 1:
        main_rows = tree.threads[mains[0]]
        anns = [r for r in main_rows if r.name.startswith("## backward ##")] or [r for r in main_rows if r.name.startswith("ProfilerStep#")]
        for a in anns:
            for r in tree.threads[bwds[0]]:
                if tree.parent[r.id] == -1 and r.ts >= a.ts and r.end <= a.end:
                    tree.parent[r.id] = a.id
                    reparented += 1
        classes.append("main_and_autograd_thread")
        if any(r.name.startswith("## backward ##") for r in main_rows):
            classes.append("has_backward_annotation")
    if reparented:
        classes.append("reparented_operator")
    # ---- compare parents ----
    for i, p in tree.parent.items():
        g = got_parent[i]
        gp = g if g >= 0 else -1
        r = by_id[i]
        require(gp == p, "parent", lambda: f"rank {rank} event {i} {r.name!r} [{r.ts - shift},{r.end - shift}] tid {r.tid} stream {r.stream}: "
                                           f"parent {g} expected {p}")
    # ---- depth / height / aggregates from the model tree ----
    ch = tree.children()
    depth: Dict[int, int] = {}

    def set_depth(i: int, dval: int) -> None:
        depth[i] = dval
        for c in ch.get(i, []):
            set_depth(c, dval + 1)

    for top in ch.get(-1, []):
        set_depth(top, 0)
    memo: Dict[int, Tuple[int, int, int, int, int]] = {}

    def agg(i: int) -> Tuple[int, int, int, int, int]:
        """(height, count, dur sum, first start, last end) with first/last in file time"""
        if i in memo:
            return memo[i]
        if i in tree.device:
            r = by_id[i]
            memo[i] = (0, 1, r.dur, r.ts, r.end)
            return memo[i]
        h, cnt, ds, fs, le = 1, 0, 0, None, None
        for c in ch.get(i, []):
            hc, cc, dc, fc, lc = agg(c)
            h = max(h, hc + 1)
            cnt += cc
            ds += dc
            if cc:
                fs = fc if fs is None else min(fs, fc)
                le = lc if le is None else max(le, lc)
        memo[i] = (h, cnt, ds, fs, le)
        return memo[i]

    multi_child_kernels = False
    for i in tree.parent:
        r = by_id[i]
        h, cnt, ds, fs, le = agg(i)
        desc = lambda: (f"rank {rank} event {i} {r.name!r} [{r.ts - shift},{r.end - shift}]: got depth {got['depth'][i]} height {got['height'][i]} "  # noqa: E731
                        f"kernels {got['num_kernels'][i]} sum {got['kernel_dur_sum'][i]} first {got['first_kernel_start'][i]} "
                        f"last {got['last_kernel_end'][i]} span {got['kernel_span'][i]}; expected depth {depth[i]} height {h} "
                        f"kernels {cnt} sum {ds} first {None if fs is None else fs - shift} last {None if le is None else le - shift}")
        require(int(got["depth"][i]) == depth[i], "depth", desc)
        require(int(got["height"][i]) == h, "height", desc)
        if i in tree.device:
            continue
        require(int(got["num_kernels"][i]) == cnt, "num_kernels", desc)
        if cnt == 0:
            require((int(got["kernel_dur_sum"][i]), int(got["first_kernel_start"][i]), int(got["last_kernel_end"][i]),
                     int(got["kernel_span"][i])) == (0, -1, -1, 0), "no_kernel_defaults", desc)
        else:
            require(float(got["kernel_dur_sum"][i]) == ds, "kernel_dur_sum", desc)
            require(float(got["first_kernel_start"][i]) == fs - shift, "first_kernel_start", desc)
            require(float(got["last_kernel_end"][i]) == le - shift, "last_kernel_end", desc)
            require(float(got["kernel_span"][i]) == le - fs, "kernel_span", desc)
            if sum(1 for c in ch.get(i, []) if agg(c)[1] > 0) >= 2:
                multi_child_kernels = True
    # ---- get_stack_of_node ----
    for i in list(tree.parent)[:: max(1, len(tree.parent) // 4)]:
        if i in tree.device:
            continue
        st_df = hta_call("get_stack_of_node", lambda: cg.get_stack_of_node(i, rank))
        ids = {int(x) for x in st_df["index"]}
        want = {i}
        j = i
        while tree.parent[j] >= 0:
            j = tree.parent[j]
            want.add(j)
        stack = [i]
        while stack:
            x = stack.pop()
            for c in ch.get(x, []):
                want.add(c)
                stack.append(c)
        require(want <= ids, "get_stack_of_node:contains_ancestors_and_descendants", lambda: f"node {i}: missing {sorted(want - ids)}")
    maxd = max(depth.values()) if depth else 0
    classes.append(f"depth>={min(maxd, 3)}")
    if multi_child_kernels:
        classes.append("kernels_from_several_children")
    if zero_rows:
        classes.append("zero_duration_operator")
    if len(tree.threads) >= 2:
        classes.append("multi_thread")
    nt = maxd >= 3 and multi_child_kernels
    if len(mains) == 1 and len(bwds) == 1:
        nt = nt and reparented > 0
    return nt


def check(case: Dict[str, Any]) -> CaseInfo:
    from hv.hta_io import load_analysis

    classes: List[str] = []
    nontrivial = False
    with scratch_dir() as d:
        files = write_case(case, d)
        ta = load_analysis(files, d, mp=case.get("mp", False), prelude=case.get("prelude"))
        from hta.common.trace_call_graph import CallGraph

        old = os.environ.pop("HTA_DISABLE_CG_DEPTH", None)
        if case.get("cg_depth_option_off"):
            os.environ["HTA_DISABLE_CG_DEPTH"] = "1"
            classes.append("HTA_DISABLE_CG_DEPTH")
        try:
            cg = hta_call("CallGraph", lambda: CallGraph(ta.t))
        finally:
            os.environ.pop("HTA_DISABLE_CG_DEPTH", None)
            if old is not None:
                os.environ["HTA_DISABLE_CG_DEPTH"] = old
        shift = ta.t.min_ts if case.get("unrounded") else int(ta.t.min_ts)
        for rd in case["ranks"]:
            df = ta.t.get_trace(rd["rank"])
            if check_rank(complete_rows(rd["events"]), df, shift, cg, rd["rank"], classes):
                nontrivial = True
    if len(case["ranks"]) >= 2:
        ann = [any(e.get("name", "").startswith("## backward ##") for e in rd["events"]) for rd in case["ranks"]]
        auto = [any("autograd::" in e.get("name", "") for e in rd["events"]) for rd in case["ranks"]]
        if any(ann) and any(au and not an for an, au in zip(ann, auto)):
            classes.append("only_some_ranks_have_a_backward_annotation")
    return CaseInfo(nontrivial=nontrivial, classes=classes)


@st.composite
def c13_case(draw):
    autograd = draw(st.sampled_from([True, True, False]))
    o = Opts(fractional_stamps=True, unrounded=True, python_frames=True, early_kernels=True, steps=[0, 1, 2, 3] if not autograd else [1, 2, 3, 0], w_launch=7, w_sync=2, w_op=6, w_rt=1, max_top=4, max_depth=4,
             streams=2, second_thread=True, autograd=autograd, device_sync=False, allow_zero_call=False, backward_ann=autograd,
             force_second_thread=autograd, cuda_events=True)
    if autograd and draw(st.sampled_from([True, False, False])):
        # the annotation on one rank only: the other rank must fall back to its profiler steps (the symbol table is shared)
        o.backward_ann_ranks = draw(st.sampled_from([[0], [1]]))
        case = draw(sim_case(o, max_ranks=2, nranks_choices=[2]))
    else:
        case = draw(sim_case(o, max_ranks=2))
    # HTA_DISABLE_CG_DEPTH=1 skips one (redundant) depth pass of the call-stack builder; every attribute must come out the same
    case["cg_depth_option_off"] = draw(st.sampled_from([False, False, False, True]))
    return case


def view(case):
    return {"ranks": [{"rank": r["rank"], "rows[id,cat,name,tid,ts,dur,stream,corr]": [
        [x.id, x.cat, x.name, x.tid, x.ts, x.dur, x.stream, x.correlation] for x in complete_rows(r["events"])]}
        for r in case["ranks"][:1]]}


def campaigns(tier: str) -> List[Campaign]:
    return [Campaign("call_graph", c13_case(), check, quick=320, thorough=14400, quick_shards=8,
                     required_classes={"HTA_DISABLE_CG_DEPTH": 0.06, "depth>=3": 0.15, "kernels_from_several_children": 0.3, "main_and_autograd_thread": 0.12,
                                       "reparented_operator": 0.06, "has_backward_annotation": 0.05, "multi_thread": 0.3,
                                       "only_some_ranks_have_a_backward_annotation": 0.05},
                     sample_view=view)]
