"""Turn a generated case description into trace files on disk (and back).

A case is JSON-able:
  {"ranks": [{"rank": r, "events": [<chrome trace entries>], "meta": {...optional}}, ...],
   "fmt": "json" | "gz"}
Keys of an entry that start with "_" are private notes of the generator and are never written.
"""
from __future__ import annotations

import gzip
import json
import os
import shutil
import tempfile
from contextlib import contextmanager
from typing import Any, Dict, Iterator, List


def clean_event(e: Dict[str, Any]) -> Dict[str, Any]:
    return {k: v for k, v in e.items() if not k.startswith("_")}


def file_dict(rank_desc: Dict[str, Any], world: int) -> Dict[str, Any]:
    meta = {
        "schemaVersion": 1,
        "deviceProperties": [{"id": 0, "name": "Simulated GPU", "totalGlobalMem": 1 << 30}],
        "distributedInfo": {"backend": "nccl", "rank": rank_desc["rank"], "world_size": world},
    }
    meta.update(rank_desc.get("meta", {}))
    meta["traceEvents"] = [clean_event(e) for e in rank_desc["events"]]
    meta["traceName"] = f"sim_rank{rank_desc['rank']}.json"
    return meta


def write_rank_file(rank_desc: Dict[str, Any], world: int, directory: str, fmt: str) -> str:
    d = file_dict(rank_desc, world)
    text = rank_desc.get("text")  # pre-rendered JSON text (used when exact number spelling matters)
    if text is None:
        text = json.dumps(d)
    if fmt == "gz":
        path = os.path.join(directory, f"rank{rank_desc['rank']}.json.gz")
        with gzip.open(path, "wb") as fh:
            fh.write(text.encode())
    else:
        path = os.path.join(directory, f"rank{rank_desc['rank']}.json")
        with open(path, "w") as fh:
            fh.write(text)
    return path


def world_size(case: Dict[str, Any]) -> int:
    return max(len(case["ranks"]), 1 + max(int(rd["rank"]) for rd in case["ranks"]))


def scale_to_sub_microsecond(case: Dict[str, Any], k: int = 4) -> Dict[str, Any]:
    """Generator dimension 'unrounded': every stamp and duration of an integer-grid case divided by k (a power of two, so
    all arithmetic on the results stays exact in doubles) and the case marked to be loaded with HTA_DISABLE_NS_ROUNDING=1,
    HTA's documented option that keeps nanosecond-resolution stamps as they are.  The time columns of the loaded frames are
    then doubles with fractional parts, every model sees the same fractional values."""
    for rd in case["ranks"]:
        for e in rd["events"]:
            if isinstance(e.get("ts"), int):
                e["ts"] = e["ts"] / k
            if isinstance(e.get("dur"), int):
                e["dur"] = e["dur"] / k
    case["unrounded"] = True
    return case


def write_case(case: Dict[str, Any], directory: str) -> Dict[int, str]:
    # the rounding option is read by HTA from the environment at parse time; it is owned by the case (set or cleared
    # before every load, so nothing leaks from one case to the next)
    if case.get("unrounded"):
        os.environ["HTA_DISABLE_NS_ROUNDING"] = "1"
    else:
        os.environ.pop("HTA_DISABLE_NS_ROUNDING", None)
    world = world_size(case)
    fmts = case.get("fmt", "json")
    out: Dict[int, str] = {}
    for i, rd in enumerate(case["ranks"]):
        fmt = fmts[i % len(fmts)] if isinstance(fmts, list) else fmts
        out[int(rd["rank"])] = write_rank_file(rd, world, directory, fmt)
    return out


@contextmanager
def scratch_dir() -> Iterator[str]:
    base = os.environ.get("HV_TMP") or None
    if base:
        os.makedirs(base, exist_ok=True)
    d = tempfile.mkdtemp(prefix="hv-", dir=base)
    try:
        yield d
    finally:
        shutil.rmtree(d, ignore_errors=True)


def read_any(path: str) -> Dict[str, Any]:
    """Read a trace file, sniffing the gzip magic (HTA writers gzip regardless of the file name)."""
    with open(path, "rb") as fh:
        head = fh.read(2)
    if head == b"\x1f\x8b":
        with gzip.open(path, "rb") as fh:
            return json.loads(fh.read())
    with open(path, "r") as fh:
        return json.loads(fh.read())
