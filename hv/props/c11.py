"""C11 Symbol ids are a stable bijection; results ignore id numbering and parse order."""
from __future__ import annotations

import json
import os
import subprocess
import sys
from typing import Any, Dict, List

from hypothesis import strategies as st

from hv.core import VERIF_ROOT, Campaign, CaseInfo, Violation, hta_call, require
from hv.gen import vocab
from hv.gen.files import scratch_dir, write_case
from hv.gen.kineto_sim import Opts, sim_case
from hv.model.raw import complete_rows
from hv.model.trace import kept_after_load

ID = "C11"
RULE = ("(a) symbol_table: a Hypothesis rule-based state machine generates histories over TraceSymbolTable (add_symbols with "
        "repeats, add_symbols_mp through a forked pool, clone, combine_symbol_tables, series getters, find_matches); the history "
        "is executed against the real class and a list+dict model; invariant after every step: decode(encode(s)) == s, ids dense "
        "0..n-1, every previously observed (symbol, id) still holds, sequential additions number symbols in first-seen order. "
        "(b) loader: G-sim rank sets (2-4 ranks with different, overlapping vocabularies) are loaded in 3-5 child interpreters "
        "that differ in PYTHONHASHSEED, use_multiprocessing, rank order (dict order / parse_multiple_ranks permutation) and "
        "worker completion order (per-file delays injected into the forked pool workers); each child prints a canonical digest "
        "(decoded rows per rank + nine analysis outputs with names decoded); oracle: every rank decodes to its own file's "
        "strings (model) and all digests are equal. Non-trivial (a): history with >= 3 additions incl. a repeat and a "
        "clone/combine; (b): >= 2 ranks whose vocabularies differ and overlap and >= 2 distinct id numberings observed among "
        "the children. Distinct = distinct canonical case JSON.")
ASSUMPTIONS = [
    "hash seeds, worker schedules and rank orders are sampled, not enumerated",
    "worker completion order is controlled by injected per-file delays (0 / 0.25 s steps) in forked pool workers",
    "add_symbols_mp makes no promise about the order in which new symbols are numbered: only bijection, density and stability are checked for it",
]

SYMS = ["aten::mm", "aten::add", "cpu_op", "kernel", "cudaLaunchKernel", "x", "", "ProfilerStep#1", "Memcpy DtoH (Device -> Pinned)",
        "nccl:all_reduce", "名前", "a b", "A", "a"]
sym = st.one_of(st.sampled_from(SYMS), st.text(alphabet="abcXY_:# ", max_size=6))


# ---- (a) stateful symbol-table histories -----------------------------------------------------------
def machine_factory(body):
    from hypothesis.stateful import RuleBasedStateMachine, precondition, rule

    class SymbolTableHistories(RuleBasedStateMachine):
        def __init__(self):
            super().__init__()
            self.history: List[Any] = []
            self.mp_calls = 0

        @rule(symbols=st.lists(sym, max_size=8))
        def add_symbols(self, symbols):
            self.history.append(["add", symbols])

        @rule(symbols=st.lists(sym, max_size=6))
        def add_symbols_as_set(self, symbols):
            self.history.append(["add_sorted_set", symbols])

        @precondition(lambda self: self.mp_calls < 2)
        @rule(lists=st.lists(st.lists(sym, max_size=5), min_size=1, max_size=3))
        def add_symbols_mp(self, lists):
            self.mp_calls += 1
            self.history.append(["add_mp", lists])

        @rule()
        def clone(self):
            self.history.append(["clone"])

        @rule(other=st.lists(sym, max_size=5), current_first=st.booleans())
        def combine(self, other, current_first):
            self.history.append(["combine", other, current_first])

        @rule()
        def series(self):
            self.history.append(["series"])

        @rule(patterns=st.lists(st.sampled_from(["aten", "a", "cuda", "#", ":"]), min_size=1, max_size=2))
        def find(self, patterns):
            self.history.append(["find", patterns])

        def teardown(self):
            if self.history:
                body(self.history)

    return SymbolTableHistories


def check_history(history: List[Any]) -> CaseInfo:
    from hv.hta_io import quiet

    quiet()
    from hta.common.trace_symbol_table import TraceSymbolTable

    real = TraceSymbolTable()
    model: List[str] = []
    observed: Dict[str, int] = {}
    classes: List[str] = []
    adds = 0
    repeat = False

    def invariant(step: str, ordered: bool = True) -> None:
        tab, idx = real.get_sym_table(), real.get_sym_id_map()
        require(len(tab) == len(idx) == len(set(tab)), "bijection:sizes", lambda: f"after {step}: {len(tab)} {len(idx)} {len(set(tab))}")
        require(sorted(idx.values()) == list(range(len(tab))), "ids:dense", lambda: f"after {step}: {sorted(idx.values())}")
        for s, i in idx.items():
            require(tab[i] == s, "bijection:decode_encode", lambda: f"after {step}: sym_table[{i}]={tab[i]!r} but sym_index[{s!r}]={i}")
        for s, i in observed.items():
            require(idx.get(s) == i, "ids:stable", lambda: f"after {step}: {s!r} had id {i}, now {idx.get(s)}")
        require(set(tab) == set(model), "symbols:same_set", lambda: f"after {step}: {sorted(set(tab) ^ set(model))}")
        if ordered:
            require(list(tab) == model, "ids:first_seen_order", lambda: f"after {step}: {tab} vs {model}")
        observed.update(idx)

    ordered = True
    for n, op in enumerate(history):
        step = f"step {n} {op[0]}"
        if op[0] in ("add", "add_sorted_set"):
            symbols = op[1] if op[0] == "add" else sorted(set(op[1]))
            adds += 1
            if any(s in model for s in symbols) or len(set(symbols)) != len(symbols):
                repeat = True
            hta_call("add_symbols", lambda: real.add_symbols(symbols))
            for s in symbols:
                if s not in model:
                    model.append(s)
        elif op[0] == "add_mp":
            adds += 1
            hta_call("add_symbols_mp", lambda: real.add_symbols_mp(op[1]))
            new = []
            for lst in op[1]:
                for s_ in lst:
                    if s_ not in model and s_ not in new:
                        new.append(s_)
            tab = real.get_sym_table()
            tail = list(tab[len(model):])
            # the pool decides in which order the new symbols are numbered: adopt it after checking it is a permutation
            require(sorted(tail) == sorted(new), "add_symbols_mp:adds_exactly_the_new_symbols",
                    lambda: f"after {step}: added {tail}, expected a permutation of {new}")
            model.extend(tail)
            classes.append("add_symbols_mp")
        elif op[0] == "clone":
            old = real
            real = hta_call("clone", lambda: TraceSymbolTable.clone(old))
            require(real is not old and real.get_sym_table() is not old.get_sym_table(), "clone:independent_object", step)
            classes.append("clone")
        elif op[0] == "combine":
            other = TraceSymbolTable()
            other.add_symbols(op[1])
            if op[2]:
                real = hta_call("combine_symbol_tables", lambda: TraceSymbolTable.combine_symbol_tables([real, other]))
                for s in op[1]:
                    if s not in model:
                        model.append(s)
            else:
                # the other table first: ids of current symbols may legitimately change in the *new* table
                combined = hta_call("combine_symbol_tables", lambda: TraceSymbolTable.combine_symbol_tables([other, real]))
                tabc, idxc = combined.get_sym_table(), combined.get_sym_id_map()
                require(set(tabc) == set(model) | set(op[1]) and all(tabc[i] == s for s, i in idxc.items()), "combine:bijection", step)
            classes.append("combine")
        elif op[0] == "series":
            ts, ix = hta_call("get_sym_table_series", lambda: (real.get_sym_table_series(), real.get_sym_index_series()))
            require(list(ts) == real.get_sym_table() and {k: int(v) for k, v in ix.items()} == real.get_sym_id_map(), "series:fresh",
                    lambda: f"after {step}: {list(ts)} vs {real.get_sym_table()}")
            classes.append("series")
        elif op[0] == "find":
            got = hta_call("find_matches", lambda: real.find_matches(op[1]))
            want = [i for i, s in enumerate(real.get_sym_table()) if any(p in s for p in op[1])]
            require(list(got) == want, "find_matches", lambda: f"{got} vs {want}")
        invariant(step, ordered)
    if repeat:
        classes.append("repeated_symbol")
    nt = adds >= 3 and repeat and any(c in classes for c in ("clone", "combine"))
    return CaseInfo(nontrivial=nt, classes=classes)


# ---- (b) differential loader runs --------------------------------------------------------------------
VOCABS = [
    (vocab.CPU_OPS[:4], vocab.COMP_KERNELS[:2]),
    (vocab.CPU_OPS[2:7], vocab.COMP_KERNELS[1:4] + vocab.COMM_KERNELS[:1]),
    (vocab.CPU_OPS[5:12] + list(vocab.TEMPLATE_OPS)[:1], vocab.COMM_KERNELS[:2] + vocab.COMP_KERNELS[:1]),
    (vocab.CPU_OPS[:2] + vocab.CPU_OPS[10:14], vocab.COMP_KERNELS[3:6]),
]


def run_child(cfg: Dict[str, Any], hashseed: int, directory: str, tag: str) -> Dict[str, Any]:
    path = os.path.join(directory, f"cfg_{tag}.json")
    with open(path, "w") as fh:
        json.dump(cfg, fh)
    env = dict(os.environ)
    env["PYTHONHASHSEED"] = str(hashseed)
    env["PYTHONPATH"] = VERIF_ROOT + os.pathsep + env.get("PYTHONPATH", "")
    r = subprocess.run([sys.executable, "-m", "hv.c11_child", path], cwd=VERIF_ROOT, env=env, capture_output=True, text=True, timeout=300)
    for line in r.stdout.splitlines():
        if line.startswith("C11DIGEST "):
            return json.loads(line[len("C11DIGEST "):])
    raise Violation("raises:load_in_child", f"config {cfg.get('order')}/{cfg.get('mp')}/seed {hashseed}: exit {r.returncode}: {r.stderr[-800:]}")


def check_loader(case: Dict[str, Any]) -> CaseInfo:
    classes: List[str] = []
    with scratch_dir() as d:
        files = write_case(case, d)
        digests = []
        for n, c in enumerate(case["configs"]):
            order = c.get("dict_order") or sorted(files)
            cfg = {"dir": d, "files": [[r, files[r]] for r in order], "mp": c["mp"], "order": c.get("order"), "batches": c.get("batches"),
                   "delays": {files[int(r)]: s for r, s in (c.get("delays") or {}).items()}}
            digests.append(run_child(cfg, c["hashseed"], d, str(n)))
    base = digests[0]
    # every rank decodes to its own file's strings
    for rd in case["ranks"]:
        rows_all = complete_rows(rd["events"])
        keep, free = kept_after_load(rows_all, include_last=False)
        got = base["ranks"][str(rd["rank"])]
        ci = {c: i for i, c in enumerate(got["columns"])}
        got_rows = {r[ci["index"]]: r for r in got["rows"]}
        require(set(got_rows) - free == keep, "decode:row_set", lambda: f"rank {rd['rank']}: {sorted(set(got_rows) ^ keep)}")
        for r in rows_all:
            if r.id in got_rows:
                g = got_rows[r.id]
                require(g[ci["name"]] == r.name and g[ci["cat"]] == r.cat, "decode:own_strings",
                        lambda: f"rank {rd['rank']} event {r.id}: decoded ({g[ci['name']]!r}, {g[ci['cat']]!r}) file ({r.name!r}, {r.cat!r})")
    for n, dg in enumerate(digests):
        require(dg["bijection"] is True, "bijection:after_multi_rank_load", f"config {n}")
        require(dg["stable"]["ids"] is True, "incremental:ids_stable_as_ranks_are_added", lambda: f"config {n} {case['configs'][n]}: {dg['stable']['detail']}")
        require(dg["stable"]["decoding"] is True, "incremental:earlier_ranks_still_decode", lambda: f"config {n} {case['configs'][n]}: {dg['stable']['detail']}")
    for n, dg in enumerate(digests[1:], 1):
        for rk in base["ranks"]:
            require(dg["ranks"].get(rk) == base["ranks"][rk], "independence:decoded_rows",
                    lambda: f"config {n} {case['configs'][n]} vs config 0 {case['configs'][0]}: rank {rk} differs: {_first_diff(base['ranks'][rk], dg['ranks'].get(rk))}")
        for name in base["analyses"]:
            require(dg["analyses"].get(name) == base["analyses"][name], f"independence:{name}",
                    lambda: f"config {n} {case['configs'][n]} vs config 0 {case['configs'][0]}: "
                            f"{json.dumps(base['analyses'][name])[:400]} vs {json.dumps(dg['analyses'].get(name))[:400]}")
    numberings = {dg["numbering"] for dg in digests}
    vocs = [set(r.name for r in complete_rows(rd["events"])) for rd in case["ranks"]]
    differ_overlap = any(a != b and a & b for i, a in enumerate(vocs) for b in vocs[i + 1:])
    if len(numberings) >= 2:
        classes.append("distinct_numberings")
    if any(c["mp"] for c in case["configs"]):
        classes.append("multiprocessing")
    if any(c.get("delays") for c in case["configs"]):
        classes.append("controlled_completion_order")
    if any(c.get("order") for c in case["configs"]):
        classes.append("permuted_parse_order")
    if any(c.get("batches") for c in case["configs"]):
        classes.append("incremental_load")
    if any(c.get("batches") and c["mp"] and any(len(b["ranks"]) > 1 for b in c["batches"][1:]) for c in case["configs"]):
        classes.append("incremental_load_pool_after_first_batch")
    if case.get("big_vocab"):
        classes.append("vocabulary_above_127_symbols")
    if case.get("superset_rank") is not None:
        classes.append("one_rank_vocabulary_is_the_union")
    if len({c["hashseed"] for c in case["configs"]}) >= 2:
        classes.append("several_hash_seeds")
    ok_an = [k for k, v in base["analyses"].items() if not (isinstance(v, dict) and "raises" in v)]
    classes.append(f"analyses_ok>={min(len(ok_an), 8)}")
    return CaseInfo(nontrivial=differ_overlap and len(numberings) >= 2 and len(case["ranks"]) >= 2, classes=classes)


def _first_diff(a, b) -> str:
    if not b:
        return "missing"
    for x, y in zip(a["rows"], b["rows"]):
        if x != y:
            return f"{x} vs {y}"
    return f"{len(a['rows'])} vs {len(b['rows'])} rows"


@st.composite
def loader_case(draw):
    big = draw(st.sampled_from([False, True, False]))
    o = Opts(steps=[0, 1, 2, 3], w_launch=6, w_sync=2, max_top=3, streams=2, rank_vocab=VOCABS, ensure_kernel=True, cuda_events=True)
    case = draw(sim_case(o, max_ranks=4, nranks_choices=[2, 3, 4, 2], renumber=False))
    if big:
        # one rank with more than 127 distinct names, so that symbols of the other ranks get ids beyond a narrow dtype
        tgt = case["ranks"][draw(st.sampled_from([0, 0, -1]))]
        n = draw(st.sampled_from([130, 140, 260]))
        last = max((e.get("ts", 0) + e.get("dur", 0) for e in tgt["events"] if e.get("ph") == "X" and e.get("cat") != "Trace"), default=0)
        host = next(e for e in tgt["events"] if e.get("ph") == "X" and e.get("cat") == "cpu_op")
        if not any(e.get("name", "").startswith("ProfilerStep#") for e in tgt["events"]):
            for i in range(n):
                tgt["events"].append({"ph": "X", "cat": "cpu_op", "name": f"op_uniq_{i}", "pid": host["pid"], "tid": host["tid"],
                                      "ts": last + 1 + i, "dur": 1, "args": {"External id": 9000 + i}})
        else:
            big = False
    case["big_vocab"] = big
    # a rank whose vocabulary is a superset of every other rank's: clones of the other ranks' complete events are
    # appended on separate threads / correlation ids after its own events
    if len(case["ranks"]) >= 2 and draw(st.sampled_from([False, True, False])):
        j = draw(st.sampled_from(list(range(1, len(case["ranks"])))))
        tgt = case["ranks"][j]
        if not any(e.get("name", "").startswith("ProfilerStep#") for rd in case["ranks"] for e in rd["events"]):
            t0 = max((e.get("ts", 0) + e.get("dur", 0) for e in tgt["events"] if e.get("ph") == "X" and e.get("cat") != "Trace"), default=0) + 5
            k = 0
            for i, rd in enumerate(case["ranks"]):
                if i == j:
                    continue
                base = min((e["ts"] for e in rd["events"] if e.get("ph") == "X" and e.get("cat") != "Trace"), default=0)
                for e in rd["events"]:
                    if e.get("ph") != "X" or e.get("cat") in (None, "Trace") or e.get("dur") is None:
                        continue
                    c = json.loads(json.dumps(e))
                    c["ts"] = t0 + (e["ts"] - base)
                    if isinstance(c.get("tid"), int) and c.get("pid", 0) >= 5000:
                        c["tid"] = c["tid"] + 50 + 10 * i
                    if isinstance(c.get("args"), dict) and "correlation" in c["args"]:
                        c["args"]["correlation"] = c["args"]["correlation"] + 50_000 + 1000 * i
                    tgt["events"].append(c)
                    k += 1
                t0 += 200
            case["superset_rank"] = j
    ranks = [r["rank"] for r in case["ranks"]]
    configs = [{"hashseed": 0, "mp": False}]
    for _ in range(draw(st.sampled_from([2, 3, 4]))):
        c: Dict[str, Any] = {"hashseed": draw(st.sampled_from([1, 2, 3, 7, 42, 1234, 0])), "mp": draw(st.sampled_from([True, False]))}
        mode = draw(st.sampled_from(["incremental", "load", "dict_order", "parse_order", "parse_order", "incremental"]))
        perm = list(draw(st.permutations(ranks)))
        if mode == "dict_order":
            c["dict_order"] = perm
        elif mode == "parse_order":
            c["order"] = perm
        elif mode == "incremental":
            # ranks added to one Trace object in 2-3 steps
            cut = 1 if draw(st.booleans()) else (draw(st.integers(1, len(perm) - 1)) if len(perm) > 1 else 1)
            c["mp"] = draw(st.sampled_from([True, True, False]))
            parts = [perm[:cut], perm[cut:]]
            if len(parts[1]) > 1 and draw(st.booleans()):
                parts = [parts[0], parts[1][:1], parts[1][1:]]
            c["batches"] = [{"ranks": b, "single": draw(st.booleans())} for b in parts if b]
        if c["mp"]:
            # completion order = a drawn permutation: the k-th file to finish sleeps k * 0.25 s
            fin = list(draw(st.permutations(ranks)))
            c["delays"] = {str(r): 0.25 * k for k, r in enumerate(fin)}
        configs.append(c)
    case["configs"] = configs
    return case


def campaigns(tier: str) -> List[Campaign]:
    c = Campaign("symbol_table", machine_factory, check_history, quick=400, thorough=16000, quick_shards=4,
                 required_classes={"clone": 0.2, "combine": 0.2, "repeated_symbol": 0.22, "series": 0.17, "add_symbols_mp": 0.1},
                 stateful=True, sample_view=lambda h: h)
    c.step_count = 12
    return [c,
            Campaign("loader", loader_case(), check_loader, quick=24, thorough=480, quick_shards=8,
                     required_classes={"distinct_numberings": 0.5, "multiprocessing": 0.5, "controlled_completion_order": 0.4,
                                       "permuted_parse_order": 0.3, "incremental_load": 0.3,
                                       "incremental_load_pool_after_first_batch": 0.03},
                     sample_view=lambda cs: {"configs": cs["configs"], "names_per_rank": [
                         sorted({r.name for r in complete_rows(rd["events"])})[:8] for rd in cs["ranks"]]})]
