"""Thin helpers around the code under test (the only harness module, besides props/, importing hta)."""
from __future__ import annotations

import logging
import os
from typing import Any, Dict, Optional

from hv.core import hta_call

_quiet_done = False


def quiet() -> None:
    global _quiet_done
    if _quiet_done:
        return
    _quiet_done = True
    logging.disable(logging.CRITICAL)
    import warnings

    warnings.filterwarnings("ignore")
    try:
        import pandas as pd

        pd.set_option("mode.chained_assignment", None)
    except Exception:  # noqa: BLE001
        pass


def load_trace(files: Dict[int, str], directory: str, include_last: bool = False, mp: bool = False,
               parse_only: bool = False):
    """Trace object after parse_traces() (parse_only) or load_traces()."""
    quiet()
    from hta.common.trace import Trace

    def _do():
        t = Trace(dict(files), directory)
        if parse_only:
            t.parse_traces(use_multiprocessing=mp)
        else:
            t.load_traces(include_last_profiler_step=include_last, use_multiprocessing=mp)
        return t

    return hta_call("load_traces" if not parse_only else "parse_traces", _do)


def load_analysis(files: Dict[int, str], directory: str, include_last: bool = False, mp: bool = False):
    """A TraceAnalysis whose traces were loaded like TraceAnalysis.__init__ does, with control over
    the use_multiprocessing flag (the constructor always uses the default)."""
    quiet()
    from hta.trace_analysis import TraceAnalysis

    if mp:
        return hta_call("TraceAnalysis", lambda: TraceAnalysis(trace_files=dict(files), trace_dir=directory,
                                                               include_last_profiler_step=include_last))
    t = load_trace(files, directory, include_last, mp=False)
    ta = TraceAnalysis.__new__(TraceAnalysis)
    ta.t = t
    return ta
