"""CLI:  python -m hv.run <ID> [--tier quick|thorough]

exit 0  property held on everything explored (KNOWN-FINDING lines may be printed)
exit 1  a violation was found:  "VIOLATION property=<ID> replay=<path>"
exit 2  harness problem (never a VIOLATION line)

The parent process replays the committed regression inputs of the property, then runs every
campaign of the property in N worker sub-processes (fresh interpreters, PYTHONHASHSEED=0), merges
their counters, writes evidence/<ID>.json and decides the exit code.
"""
from __future__ import annotations

import argparse
import glob
import importlib
import json
import os
import shutil
import subprocess
import sys
import time
import traceback
from collections import Counter
from typing import Any, Dict, List, Optional, Tuple

from hv.core import VERIF_ROOT, Campaign, CaseInfo, Ctx, HarnessError, Violation, canon, case_hash, derive_seed

PY = sys.executable
KNOWN_FINDINGS = os.path.join(VERIF_ROOT, "known_findings.json")


# ----------------------------------------------------------------------------------------------
def load_module(pid: str):
    return importlib.import_module(f"hv.props.{pid.lower()}")


def load_known(pid: str) -> List[Dict[str, Any]]:
    if not os.path.exists(KNOWN_FINDINGS):
        return []
    data = json.load(open(KNOWN_FINDINGS))
    return [f for f in data.get("findings", []) if f.get("property") == pid]


def get_campaigns(mod, tier: str) -> List[Campaign]:
    return list(mod.campaigns(tier))


def find_campaign(mod, tier: str, name: str) -> Campaign:
    for c in get_campaigns(mod, tier):
        if c.name == name:
            return c
    raise HarnessError(f"no campaign {name!r} in {mod.__name__}")


# ----------------------------------------------------------------------------------------------
# worker
def run_worker(pid: str, tier: str, camp_name: str, shard: int, nshards: int, out: str) -> int:
    import hypothesis
    from hypothesis import HealthCheck, Phase, given, seed, settings

    mod = load_module(pid)
    camp = find_campaign(mod, tier, camp_name)
    total = camp.quick if tier == "quick" else camp.thorough
    n = max(1, (total + nshards - 1) // nshards)
    base_seed = int(os.environ.get("VERIF_SEED", "1"))
    s = derive_seed(base_seed, pid, camp_name, shard)
    wall = float(os.environ.get("HV_WALL_S", "240" if tier == "quick" else "3000"))
    shrink_wall = float(os.environ.get("HV_SHRINK_S", "60" if tier == "quick" else "280"))

    ctx = Ctx()
    state: Dict[str, Any] = {"fail": None, "fail_t": None, "truncated": False, "error": None}
    t_start = time.time()

    def body(case: Any) -> None:
        now = time.time()
        if state["fail"] is not None and now - state["fail_t"] > shrink_wall:
            return  # shrink guard: pretend everything passes so the shrinker stops
        if state["fail"] is None and now - t_start > wall:
            state["truncated"] = True
            return  # wall budget: inconclusive, never a violation
        try:
            info = camp.check(case)
            if isinstance(case, dict) and case.get("fractional_stamps") and "sub_microsecond_stamps" not in info.classes:
                info.classes.append("sub_microsecond_stamps")  # generator dimension shared by every G-sim user
            if isinstance(case, dict) and case.get("unrounded") and "unrounded_fractional_times" not in info.classes:
                info.classes.append("unrounded_fractional_times")  # HTA_DISABLE_NS_ROUNDING=1, quarter-microsecond stamps
            if isinstance(case, dict) and case.get("stream_0") and "activity_on_stream_0" not in info.classes:
                info.classes.append("activity_on_stream_0")  # the legacy default stream (G-iv)
        except Violation as v:
            if state["fail_t"] is None:
                state["fail_t"] = time.time()
            state["fail"] = {"case": case, "check": v.check, "detail": v.detail, "hashseed": os.environ.get("PYTHONHASHSEED", "0")}
            raise
        if state["fail"] is None:
            ctx.done(case, info, camp.sample_view)

    sett = settings(
        max_examples=n,
        database=None,
        deadline=None,
        derandomize=False,
        report_multiple_bugs=False,
        print_blob=False,
        suppress_health_check=[HealthCheck.too_slow, HealthCheck.data_too_large],
        phases=[Phase.explicit, Phase.generate, Phase.shrink],
        stateful_step_count=getattr(camp, "step_count", 30),
    )

    result: Dict[str, Any] = {"shard": shard, "seed": s, "requested": n}
    try:
        if camp.stateful:
            from hypothesis.stateful import run_state_machine_as_test

            machine = camp.strategy(body)  # factory: returns a RuleBasedStateMachine class
            run_state_machine_as_test(seed(s)(machine), settings=sett)
        else:

            @sett
            @seed(s)
            @given(camp.strategy)
            def test(case):
                body(case)

            test()
    except Violation:
        pass  # recorded in state["fail"] (last failing execution = the shrunk example)
    except BaseException as e:  # noqa: BLE001
        if state["fail"] is None:
            state["error"] = "".join(traceback.format_exception(type(e), e, e.__traceback__))[-6000:]
    result.update(ctx.to_json())
    result["failure"] = state["fail"]
    result["error"] = state["error"]
    result["truncated"] = state["truncated"]
    result["wall_s"] = time.time() - t_start
    with open(out, "w") as fh:
        json.dump(result, fh, default=str)
    return 0


# ----------------------------------------------------------------------------------------------
# parent
def spawn_workers(pid: str, tier: str, camp: Campaign, workdir: str) -> List[Dict[str, Any]]:
    nshards = camp.quick_shards if tier == "quick" else camp.thorough_shards
    max_par = int(os.environ.get("HV_JOBS", "16"))
    procs: List[Tuple[int, subprocess.Popen, str, str]] = []
    results: List[Dict[str, Any]] = []
    pending = list(range(nshards))
    env = dict(os.environ)
    env["PYTHONHASHSEED"] = "0"
    env["PYTHONPATH"] = VERIF_ROOT + os.pathsep + env.get("PYTHONPATH", "")
    env.setdefault("HTA_VERIF", "1")
    env.setdefault("HV_TMP", os.path.join(workdir, "tmp"))
    running: List[Tuple[int, subprocess.Popen, str, str]] = []
    started: Dict[int, float] = {}
    wall = float(os.environ.get("HV_WALL_S", "240" if tier == "quick" else "3000"))
    hard = float(os.environ.get("HV_HARD_S", str(2 * wall + 600)))  # a worker still alive then is hung: inconclusive, never a violation
    while pending or running:
        while pending and len(running) < max_par:
            k = pending.pop(0)
            out = os.path.join(workdir, f"{camp.name}-{k}.json")
            log = os.path.join(workdir, f"{camp.name}-{k}.log")
            env_k = dict(env)
            env_k["PYTHONHASHSEED"] = str(k)  # shard k runs under hash seed k: symbol numberings differ between shards
            p = subprocess.Popen(
                [PY, "-m", "hv.run", pid, "--tier", tier, "--worker", camp.name, "--shard", str(k),
                 "--nshards", str(nshards), "--out", out],
                cwd=VERIF_ROOT, env=env_k, stdout=open(log, "w"), stderr=subprocess.STDOUT, start_new_session=True,
            )
            started[k] = time.time()
            running.append((k, p, out, log))
        time.sleep(0.05)
        still = []
        for k, p, out, log in running:
            if p.poll() is None:
                if time.time() - started[k] > hard:
                    try:
                        os.killpg(p.pid, 9)
                    except OSError:
                        p.kill()
                    p.wait()
                    results.append({"shard": k, "error": f"worker still running after {hard:.0f}s (hung); killed - inconclusive",
                                    "evaluations": 0, "classes": {}, "excluded": {}, "nontrivial_hashes": [],
                                    "samples": [], "failure": None, "truncated": True})
                    continue
                still.append((k, p, out, log))
                continue
            if os.path.exists(out):
                results.append(json.load(open(out)))
            else:
                tail = open(log).read()[-3000:] if os.path.exists(log) else ""
                results.append({"shard": k, "error": f"worker exited {p.returncode} without result\n{tail}",
                                "evaluations": 0, "classes": {}, "excluded": {}, "nontrivial_hashes": [],
                                "samples": [], "failure": None, "truncated": False})
        running = still
    return results


def run_fuzz(pid: str, camp: Campaign, workdir: str, seed: int) -> Dict[str, Any]:
    """Run the campaign's strategy + oracle under libFuzzer in 8 processes; merge their reports."""
    nproc = 8
    env = dict(os.environ)
    env["PYTHONHASHSEED"] = "0"
    deps = os.path.join(VERIF_ROOT, ".deps")
    env["PYTHONPATH"] = os.pathsep.join([VERIF_ROOT, deps, env.get("PYTHONPATH", "")])
    env.setdefault("HV_TMP", os.path.join(workdir, "tmp"))
    procs = []
    for k in range(nproc):
        out = os.path.join(workdir, f"fuzz-{camp.name}-{k}.json")
        corpus = os.path.join(workdir, f"corpus-{camp.name}-{k}")
        s = derive_seed(seed, pid, camp.name, "fuzz", k) % (2**31 - 1) + 1
        log = open(os.path.join(workdir, f"fuzz-{camp.name}-{k}.log"), "w")
        procs.append((out, subprocess.Popen(
            [PY, "-m", "hv.fuzz", pid, camp.name, out, corpus, f"-runs={max(1, camp.fuzz_runs // nproc)}", f"-seed={s}", "-max_len=4096",
             "-len_control=0", "-timeout=120", "-rss_limit_mb=4096"], cwd=VERIF_ROOT, env=env, stdout=log, stderr=subprocess.STDOUT)))
    merged: Dict[str, Any] = {"executions": 0, "nontrivial": 0, "processes": nproc, "failure": None, "engine": "unavailable"}
    for out, p in procs:
        p.wait()
        if os.path.exists(out):
            r = json.load(open(out))
            merged["executions"] += r.get("executions", 0)
            merged["nontrivial"] += r.get("nontrivial", 0)
            if r.get("atheris") == "ok":
                merged["engine"] = "atheris/libFuzzer"
            if r.get("failure") and merged["failure"] is None:
                merged["failure"] = r["failure"]
    return merged


def write_failure(pid: str, camp_name: str, failure: Dict[str, Any]) -> str:
    d = os.environ.get("HV_FAILURES_DIR") or os.path.join(VERIF_ROOT, "failures")
    os.makedirs(d, exist_ok=True)
    chk = "".join(c if c.isalnum() or c in "-_." else "_" for c in failure["check"])[:60]
    path = os.path.join(d, f"{pid}-{camp_name}-{chk}-{case_hash(failure['case'])}.json")
    with open(path, "w") as fh:
        json.dump({"property": pid, "campaign": camp_name, "check": failure["check"],
                   "detail": failure["detail"], "hashseed": str(failure.get("hashseed", "0")), "case": failure["case"]}, fh, indent=1, default=str)
    return os.path.relpath(path, VERIF_ROOT) if path.startswith(VERIF_ROOT + os.sep) else path


def replay_file(mod, tier: str, path: str) -> Optional[Violation]:
    data = json.load(open(path))
    hs = str(data.get("hashseed", "0"))
    if hs != os.environ.get("PYTHONHASHSEED", "0"):
        # the case was found under another hash seed (symbol numbering): replay it in an interpreter with that seed
        env = dict(os.environ, PYTHONHASHSEED=hs, PYTHONPATH=VERIF_ROOT + os.pathsep + os.environ.get("PYTHONPATH", ""))
        r = subprocess.run([PY, "-m", "hv.replay", path], cwd=VERIF_ROOT, env=env, capture_output=True, text=True)
        if r.returncode == 1:
            line = next((l for l in r.stdout.splitlines() if l.strip().startswith("check=")), "check=? detail=")
            return Violation(line.strip().split(" ")[0].replace("check=", ""), line.strip())
        if r.returncode != 0:
            raise HarnessError(f"replay of {path} failed: {r.stderr[-500:]}")
        return None
    camp = find_campaign(mod, tier, data["campaign"])
    try:
        camp.check(data["case"])
    except Violation as v:
        return v
    return None


def main(argv: Optional[List[str]] = None) -> int:
    ap = argparse.ArgumentParser()
    ap.add_argument("pid")
    ap.add_argument("--tier", default=os.environ.get("VERIF_TIER", "quick"), choices=["quick", "thorough"])
    ap.add_argument("--worker")
    ap.add_argument("--shard", type=int, default=0)
    ap.add_argument("--nshards", type=int, default=1)
    ap.add_argument("--out")
    ap.add_argument("--only", help="run only this campaign")
    a = ap.parse_args(argv)
    pid = a.pid.upper()
    if a.worker:
        return run_worker(pid, a.tier, a.worker, a.shard, a.nshards, a.out)

    os.environ["PYTHONHASHSEED"] = os.environ.get("PYTHONHASHSEED", "0")
    t0 = time.time()
    seed = int(os.environ.get("VERIF_SEED", "1"))
    workdir = os.path.join(VERIF_ROOT, ".work", f"{pid}-{os.getpid()}")
    os.makedirs(workdir, exist_ok=True)
    violations: List[str] = []
    known_lines: List[str] = []
    errors: List[str] = []
    cov: Dict[str, Any] = {"campaigns": {}}
    evaluations = 0
    nontrivial: set = set()
    samples: List[Any] = []
    classes: Counter = Counter()
    excluded: Counter = Counter()
    try:
        mod = load_module(pid)
        known = load_known(pid)
        known_witness = {os.path.normpath(f["witness"]): f for f in known if f.get("status") == "known" and f.get("witness")}
        # ---- 1. replay tier ------------------------------------------------------------------
        replayed = 0
        for path in sorted(glob.glob(os.path.join(VERIF_ROOT, "replays", f"{pid}-*.json"))):
            rel = os.path.normpath(os.path.relpath(path, VERIF_ROOT))
            v = replay_file(mod, a.tier, path)
            replayed += 1
            if v is None:
                continue
            if rel in known_witness:
                known_lines.append(f"KNOWN-FINDING: property={pid} {known_witness[rel]['what']}")
            else:
                violations.append(rel)
                print(f"VIOLATION property={pid} replay={rel}")
                print(f"  check={v.check} detail={v.detail[:500]}")
        cov["replayed_inputs"] = replayed
        # ---- 2. campaigns --------------------------------------------------------------------
        for camp in get_campaigns(mod, a.tier):
            if a.only and camp.name != a.only:
                continue
            res = spawn_workers(pid, a.tier, camp, workdir)
            c_eval = sum(r.get("evaluations", 0) for r in res)
            c_classes: Counter = Counter()
            c_nt: set = set()
            for r in res:
                c_classes.update(r.get("classes", {}))
                excluded.update(r.get("excluded", {}))
                c_nt.update(r.get("nontrivial_hashes", []))
                if r.get("error"):
                    errors.append(f"[{camp.name} shard {r.get('shard')}] {r['error']}")
            for r in sorted(res, key=lambda r: r.get("shard", 0)):
                for smp in r.get("samples", []):
                    if len([1 for x in samples if x.get("campaign") == camp.name]) < 2:
                        samples.append({"campaign": camp.name, "case": smp})
            fails = [r["failure"] for r in res if r.get("failure")]
            if fails:
                best = min(fails, key=lambda f: len(canon(f["case"])))
                rel = write_failure(pid, camp.name, best)
                violations.append(rel)
                print(f"VIOLATION property={pid} replay={rel}")
                print(f"  check={best['check']} detail={str(best['detail'])[:800]}")
            # ---- additive coverage-guided tier (Atheris / libFuzzer), thorough only ----
            if a.tier == "thorough" and camp.fuzz_runs > 0 and not fails:
                fz = run_fuzz(pid, camp, workdir, seed)
                cov.setdefault("atheris", {})[camp.name] = {k: v for k, v in fz.items() if k != "failure"}
                if fz.get("failure"):
                    rel = write_failure(pid, camp.name, fz["failure"])
                    violations.append(rel)
                    print(f"VIOLATION property={pid} replay={rel}")
                    print(f"  check={fz['failure']['check']} detail={str(fz['failure']['detail'])[:800]} (found by the libFuzzer tier)")
                evaluations += fz.get("executions", 0)  # counted in the total, not in the generator-class fractions
            evaluations += c_eval
            classes.update(c_classes)
            nontrivial.update(f"{camp.name}:{h}" for h in c_nt)
            cov["campaigns"][camp.name] = {
                "evaluations": c_eval,
                "distinct_nontrivial": len(c_nt),
                "classes": dict(c_classes),
                "shards": len(res),
                "truncated_shards": sum(1 for r in res if r.get("truncated")),
            }
            # generator-coverage floor
            if c_eval >= 40 and not fails:
                for cls, floor in camp.required_classes.items():
                    frac = c_classes.get(cls, 0) / c_eval
                    # the floor bounds the generator's *rate*; an observed fraction may fall short of it by sampling noise
                    # (three binomial standard deviations) without the generator having changed
                    slack = 3.0 * (floor * (1.0 - floor) / c_eval) ** 0.5
                    if frac < floor - slack:
                        errors.append(f"[{camp.name}] generator lost coverage: class {cls!r} in {frac:.3f} of cases "
                                      f"(< {floor} - {slack:.3f})")
    except Exception as e:  # noqa: BLE001
        errors.append("".join(traceback.format_exception(type(e), e, e.__traceback__))[-6000:])
    finally:
        shutil.rmtree(workdir, ignore_errors=True)
        try:
            os.rmdir(os.path.join(VERIF_ROOT, ".work"))
        except OSError:
            pass

    for line in known_lines:
        print(line)
    wall = time.time() - t0
    ok_evidence = False
    try:
        mod = load_module(pid)
        ev = {
            "property_id": pid,
            "tier": a.tier,
            "seed": seed,
            "level": "exploration",
            "coverage": {
                "evaluations": evaluations,
                "distinct_nontrivial": len(nontrivial),
                "rule": getattr(mod, "RULE", ""),
                "samples": samples[:6],
                "class_histogram": dict(classes),
                "excluded_by_construction": dict(excluded),
                **cov,
            },
            "assumptions": list(getattr(mod, "ASSUMPTIONS", [])),
            "wall_s": round(wall, 2),
            "violations": len(violations),
        }
        if known_lines:
            ev["coverage"]["known_findings_reported"] = known_lines
        evdir = os.environ.get("HV_EVIDENCE_DIR") or os.path.join(VERIF_ROOT, "evidence")
        os.makedirs(evdir, exist_ok=True)
        with open(os.path.join(evdir, f"{pid}.json"), "w") as fh:
            json.dump(ev, fh, indent=1, default=str)
        ok_evidence = True
    except Exception as e:  # noqa: BLE001
        errors.append(f"evidence: {e!r}")

    if violations:
        return 1
    if not errors and len(nontrivial) < 2:
        errors.append(f"vacuous run: only {len(nontrivial)} distinct non-trivial cases")
    if errors or not ok_evidence:
        for e in errors:
            print("HARNESS-ERROR:", e, file=sys.stderr)
        return 2
    print(f"OK property={pid} tier={a.tier} seed={seed} evaluations={evaluations} "
          f"distinct_nontrivial={len(nontrivial)} wall={wall:.1f}s")
    return 0


if __name__ == "__main__":
    sys.exit(main())
