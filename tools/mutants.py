#!/usr/bin/env python3
"""Sensitivity harness (not a registered check).

Applies each selected mutant from tools/mutants.json to a scratch copy of /repo/hta (under a
temporary directory outside /repo and /verif, removed afterwards), runs the property's quick check
against the copy via PYTHONPATH and expects exit 1 (VIOLATION).

usage: tools/mutants.py [--only ID[,ID..]] [--prop C04[,C05..]] [--jobs 2] [--tier quick]
"""
import argparse, json, os, shutil, subprocess, sys, tempfile, time
from concurrent.futures import ThreadPoolExecutor

ROOT = os.path.dirname(os.path.dirname(os.path.abspath(__file__)))
REPO = os.environ.get("HV_REPO", "/repo")


def run_one(m, tier, seed):
    d = tempfile.mkdtemp(prefix="hv-mut-")
    try:
        shutil.copytree(os.path.join(REPO, "hta"), os.path.join(d, "hta"))
        for ed in m["edits"]:
            p = os.path.join(d, ed["file"])
            s = open(p).read()
            cnt = s.count(ed["old"])
            if cnt != ed.get("count", 1):
                return m["id"], "SETUP", f"old text occurs {cnt}x in {ed['file']}", 0.0
            s = s.replace(ed["old"], ed["new"])
            open(p, "w").write(s)
        env = dict(os.environ)
        env.update(PYTHONPATH=d, HV_EVIDENCE_DIR=os.path.join(d, "ev"), HV_FAILURES_DIR=os.path.join(d, "fail"),
                   HV_TMP=os.path.join(d, "tmp"), VERIF_SEED=str(seed), PYTHONHASHSEED="0")
        t0 = time.time()
        r = subprocess.run(["/venv/bin/python", "-m", "hv.run", m["property"], "--tier", tier], cwd=ROOT, env=env,
                           capture_output=True, text=True)
        dt = time.time() - t0
        lines = [l for l in r.stdout.splitlines() if l.startswith(("VIOLATION", "  check="))]
        info = " | ".join(l.strip()[:160] for l in lines[:2]) if lines else (r.stderr.strip().splitlines()[-1][:200] if r.stderr.strip() else r.stdout.strip()[-200:])
        return m["id"], {0: "SURVIVED", 1: "KILLED", 2: "HARNESS-ERR"}.get(r.returncode, f"exit{r.returncode}"), info, dt
    finally:
        shutil.rmtree(d, ignore_errors=True)


def main():
    ap = argparse.ArgumentParser()
    ap.add_argument("--only")
    ap.add_argument("--prop")
    ap.add_argument("--jobs", type=int, default=2)
    ap.add_argument("--tier", default="quick")
    ap.add_argument("--seed", type=int, default=1)
    ap.add_argument("--file", default=os.path.join(ROOT, "tools", "mutants.json"))
    a = ap.parse_args()
    muts = json.load(open(a.file))["mutants"]
    if a.only:
        ids = set(a.only.split(","))
        muts = [m for m in muts if m["id"] in ids]
    if a.prop:
        ps = set(a.prop.split(","))
        muts = [m for m in muts if m["property"] in ps]
    bad = 0
    with ThreadPoolExecutor(a.jobs) as ex:
        for mid, status, info, dt in ex.map(lambda m: run_one(m, a.tier, a.seed), muts):
            print(f"{mid:28s} {status:12s} {dt:6.1f}s  {info}")
            sys.stdout.flush()
            bad += status != "KILLED"
    print(f"{len(muts) - bad}/{len(muts)} killed")
    return 1 if bad else 0


if __name__ == "__main__":
    sys.exit(main())
