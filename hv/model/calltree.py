"""Model call tree of one rank: innermost-enclosing forest per host thread + device children from
the links (+ optional autograd re-parenting).  Pure Python."""
from __future__ import annotations

from typing import Any, Callable, Dict, List, Optional, Set, Tuple

from hv.gen.spans import model_parents
from hv.model.raw import Row, is_device


class CallTree:
    def __init__(self, rows: List[Row], lk: Dict[int, int], zero_parent: Optional[Callable[[Row], int]] = None) -> None:
        """rows: the loaded (kept) rows; lk: links restricted to kept rows; zero_parent: where a zero-duration host
        event is placed (several placements are legal, so the caller supplies the observed one after validating it)."""
        self.rows = rows
        self.by_id = {r.id: r for r in rows}
        self.parent: Dict[int, int] = {}
        self.device: Set[int] = set()
        self.threads: Dict[Tuple[Any, Any], List[Row]] = {}
        for r in rows:
            if r.stream == -1 and not is_device(r):
                self.threads.setdefault((r.pid, r.tid), []).append(r)
        for trows in self.threads.values():
            mp = model_parents([[r.id, r.ts, r.dur] for r in trows])
            for r in trows:
                if r.dur > 0:
                    self.parent[r.id] = mp[r.id]
                else:
                    self.parent[r.id] = zero_parent(r) if zero_parent else -1
        for r in rows:
            if r.stream > 0 and lk.get(r.id, 0) > 0 and lk[r.id] in self.parent:
                self.parent[r.id] = lk[r.id]
                self.device.add(r.id)

    def children(self) -> Dict[int, List[int]]:
        ch: Dict[int, List[int]] = {}
        for c, p in self.parent.items():
            ch.setdefault(p, []).append(c)
        return ch

    def depths(self) -> Dict[int, int]:
        ch = self.children()
        depth: Dict[int, int] = {}
        stack = [(t, 0) for t in ch.get(-1, [])]
        while stack:
            i, d = stack.pop()
            depth[i] = d
            stack.extend((c, d + 1) for c in ch.get(i, []))
        return depth

    def device_descendants(self, i: int) -> List[int]:
        ch = self.children()
        out, stack = [], [i]
        while stack:
            x = stack.pop()
            for c in ch.get(x, []):
                if c in self.device:
                    out.append(c)
                stack.append(c)
        return out
