"""C19 A saved critical-path graph restores to an identical graph."""
from __future__ import annotations

import os
import shutil
from collections import Counter
from typing import Any, Dict, List

from hypothesis import strategies as st

from hv.core import Campaign, CaseInfo, hta_call, require
from hv.gen.files import scratch_dir
from hv.props.cp_common import CPRun, cp_case, edge_objects, heaviest_path_ties, topo_longest_path, view

ID = "C19"
RULE = ("Histories over a graph from the C08 case family: a drawn sequence (1-6 steps) of save+restore cycles, critical_path() "
        "recomputations and what-if re-weightings applied to the current (possibly restored) object and, in parallel, to the "
        "in-memory original (the model). Invariant after every step: node set, edge set, per-edge weight / type / CPEdge object, "
        "node_list, both event->node maps, edge_to_event_map, critical path nodes / edges / events are equal; recomputed path "
        "weight equal; breakdown equal as a multiset of rows. Non-trivial: >= 2 save/restore cycles in the history. Distinct = "
        "distinct canonical case JSON.")
ASSUMPTIONS = [
    "same input domain as C08",
    "restore_cpgraph() extracts under /tmp/<member path>; the harness removes that residue after each case",
    "ties between equally heavy paths may be broken differently after a restore: path weights, not node lists, are compared after "
    "a recomputation",
]


def snapshot(g) -> Dict[str, Any]:
    return {
        "nodes": set(int(n) for n in g.nodes),
        "edges": {(int(u), int(v)): (float(w), e.type.name, e) for u, v, e, w in edge_objects(g)},
        "node_list": [(int(n.idx), int(n.ev_idx), int(n.ts), bool(n.is_start), bool(n.is_blocking)) for n in g.node_list],
        "start_map": {int(k): int(v) for k, v in g.event_to_start_node_map.items()},
        "end_map": {int(k): int(v) for k, v in g.event_to_end_node_map.items()},
        "edge_event": {(int(k[0]), int(k[1])): int(v) for k, v in g.edge_to_event_map.items()},
        "cp_nodes": [int(n) for n in g.critical_path_nodes],
        "cp_events": {int(x) for x in g.critical_path_events_set},
        "cp_edges": set(g.critical_path_edges_set),
    }


def compare(a: Dict[str, Any], b: Dict[str, Any], step: str, skip_path: bool = False) -> None:
    for key in ("nodes", "node_list", "start_map", "end_map", "edge_event"):
        require(a[key] == b[key], f"restore:{key}", lambda: f"after {step}: {str(a[key])[:300]} vs {str(b[key])[:300]}")
    require(set(a["edges"]) == set(b["edges"]), "restore:edge_set", lambda: f"after {step}: {sorted(set(a['edges']) ^ set(b['edges']))[:10]}")
    for k, (w, t, e) in a["edges"].items():
        w2, t2, e2 = b["edges"][k]
        require(w == w2, "restore:edge_weight", lambda: f"after {step}: edge {k}: {w} vs {w2}")
        require(t == t2 and e == e2, "restore:edge_type_and_object", lambda: f"after {step}: edge {k}: {e} vs {e2}")
    if not skip_path:
        for key in ("cp_nodes", "cp_events", "cp_edges"):
            require(a[key] == b[key], f"restore:{key}", lambda: f"after {step}: {str(a[key])[:300]} vs {str(b[key])[:300]}")


def path_weight(g) -> float:
    p = [int(n) for n in g.critical_path_nodes]
    return sum(float(g.edges[u, v]["weight"]) for u, v in zip(p, p[1:]))


def breakdown_rows(g) -> Counter:
    bd = g.get_critical_path_breakdown()
    cols = ["event_idx", "duration", "type", "s_name", "cat", "pid", "tid", "stream", "bound_by"]
    out = Counter()
    for _, r in bd.iterrows():
        out[tuple(None if (isinstance(r[c], float) and r[c] != r[c]) else (float(r[c]) if isinstance(r[c], (int, float)) or hasattr(r[c], "dtype") else str(r[c]))
                  for c in cols)] += 1
    return out


def check(case: Dict[str, Any]) -> CaseInfo:
    from hta.analyzers.critical_path_analysis import restore_cpgraph

    classes: List[str] = []
    residue: List[str] = []
    cycles = 0
    with scratch_dir() as d:
        try:
            run = CPRun(case, d)
            orig = run.graph
            cur = orig
            base_bd = hta_call("breakdown(original)", lambda: breakdown_rows(orig))
            if heaviest_path_ties(list(orig.nodes), [(u, v, float(orig.edges[u, v]["weight"])) for u, v in orig.edges]):
                classes.append("several_equally_heavy_paths")
            diverged = False
            last_dir, changed_since_save = None, False
            for i, op in enumerate(case["history"]):
                if op[0] == "reweight":
                    changed_since_save = True
                step = f"step {i} {op[0]}"
                if op[0] == "cycle":
                    out_dir = os.path.join(d, f"cp{i}")
                    if len(op) > 1 and op[1] and last_dir is not None:
                        out_dir = last_dir  # a later state of the graph saved under the name used before
                        classes.append("saved_again_into_the_same_directory")
                        if changed_since_save:
                            classes.append("saved_again_into_the_same_directory_after_a_change")
                    last_dir, changed_since_save = out_dir, False
                    bd_before = hta_call("breakdown(before save)", lambda: breakdown_rows(cur))
                    before = snapshot(cur)  # the object being saved: the restored one must be identical to it
                    zip_file = hta_call("save", lambda: cur.save(out_dir))
                    require(os.path.exists(zip_file), "save:zip_exists", zip_file)
                    residue.append(os.path.join("/tmp", out_dir.lstrip("/")))
                    cur = hta_call("restore_cpgraph", lambda: restore_cpgraph(zip_file, run.ta.t, run.rank))
                    cycles += 1
                    compare(before, snapshot(cur), step)
                    # and still the same graph as the in-memory original (paths only while no recomputation could have
                    # broken a tie between equally heavy paths differently in the two objects)
                    compare(snapshot(orig), snapshot(cur), step, skip_path=diverged)
                elif op[0] == "recompute":
                    diverged = True
                    ok = hta_call("critical_path(restored)", lambda: cur.critical_path())
                    require(ok is True, "recompute:succeeds", str(ok))
                    hta_call("critical_path(original)", lambda: orig.critical_path())
                    require(abs(path_weight(cur) - path_weight(orig)) < 1e-9, "recompute:same_total_weight",
                            lambda: f"after {step}: {path_weight(cur)} vs {path_weight(orig)}")
                    compare(snapshot(orig), snapshot(cur), step, skip_path=True)
                elif op[0] == "reweight":
                    edges = sorted((int(u), int(v)) for u, v in orig.edges)
                    if not edges:
                        continue
                    for idx, wt in op[1]:
                        u, v = edges[idx % len(edges)]
                        orig.edges[u, v]["weight"] = wt
                        cur.edges[u, v]["weight"] = wt
                    best, _ = topo_longest_path(list(orig.nodes), [(u, v, float(orig.edges[u, v]["weight"])) for u, v in orig.edges])
                    if best <= 0:
                        classes.append("degenerate_all_zero_graph_skipped")
                        break
                    ok = hta_call("critical_path(restored,reweighted)", lambda: cur.critical_path())
                    hta_call("critical_path(original,reweighted)", lambda: orig.critical_path())
                    require(ok is True, "reweight:succeeds", str(ok))
                    require(abs(path_weight(cur) - path_weight(orig)) < 1e-9 and abs(path_weight(cur) - best) < 1e-9,
                            "reweight:same_total_weight", lambda: f"after {step}: {path_weight(cur)} vs {path_weight(orig)} (max {best})")
                    compare(snapshot(orig), snapshot(cur), step, skip_path=True)
                    classes.append("reweighted")
                    diverged = True
                if cur is not orig and op[0] == "cycle":
                    bd = hta_call("breakdown(restored)", lambda: breakdown_rows(cur))
                    if not diverged:
                        require(bd == base_bd, "restore:breakdown_equal", lambda: f"after {step}: {bd} vs {base_bd}")
                    else:
                        # after a recomputation the two objects may hold different, equally heavy paths: compare the
                        # restored breakdown with the one of the object that was saved
                        require(bd == bd_before, "restore:breakdown_equal", lambda: f"after {step}: {bd} vs {bd_before}")
        finally:
            if residue:
                shutil.rmtree(os.path.join("/tmp", d.lstrip("/")), ignore_errors=True)
    classes.append(f"cycles={min(cycles, 3)}")
    return CaseInfo(nontrivial=cycles >= 2, classes=classes)


@st.composite
def c19_case(draw):
    case = draw(cp_case())
    n = draw(st.sampled_from([1, 2, 3, 3, 4, 6]))
    hist = []
    for _ in range(n):
        k = draw(st.sampled_from(["cycle", "cycle", "cycle", "recompute", "reweight"]))
        if k == "reweight":
            hist.append([k, [[draw(st.integers(0, 200)), draw(st.sampled_from([0, 1, 5, 50, 500]))]
                             for _ in range(draw(st.sampled_from([1, 2, 4])))]])
        elif k == "cycle":
            same = draw(st.sampled_from([False, True, True]))  # True: re-use the directory of the previous save
            if same and any(h[0] == "cycle" for h in hist) and hist[-1][0] != "reweight" and draw(st.booleans()):
                hist.append(["reweight", [[draw(st.integers(0, 200)), draw(st.sampled_from([0, 1, 5, 50, 500]))]]])
            hist.append([k, same])
        else:
            hist.append([k])
    if not any(h[0] == "cycle" for h in hist):
        hist.append(["cycle"])
    case["history"] = hist
    return case


def campaigns(tier: str) -> List[Campaign]:
    return [Campaign("save_restore", c19_case(), check, quick=640, thorough=9600, quick_shards=8,
                     required_classes={"saved_again_into_the_same_directory": 0.2, "saved_again_into_the_same_directory_after_a_change": 0.08, "cycles=1": 0.1, "cycles=2": 0.1, "cycles=3": 0.05, "reweighted": 0.1, "several_equally_heavy_paths": 0.018},
                     sample_view=lambda c: {**view(c), "history": c["history"]})]
