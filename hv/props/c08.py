"""C08 Critical-path graph is a forward-in-time DAG with typed, non-negative edges."""
from __future__ import annotations

from collections import Counter
from typing import Any, Dict, List

from hv.core import Campaign, CaseInfo, require
from hv.gen.files import scratch_dir
from hv.props.cp_common import BLOCKING_CALLS, SYNC_CALLS, CPRun, cp_case, edge_objects, topo_longest_path, view

ID = "C08"
RULE = ("G-sim causally consistent traces (1-2 ranks; nested operators/annotations, kernel/memcpy/memset launches on 1-3 FIFO "
        "streams with delay >= 0, stream and device synchronisation calls whose records lie inside the call and end no earlier "
        "than the waited work, second host thread, 0-3 profiler steps, dropped launches/activities/sync records) x annotation "
        "window ('' / ProfilerStep / user annotation) x instance (None, i, (i,j)) x zero-weight launch edges on/off. Oracle: "
        "success flag; own Kahn pass for acyclicity; node multiset == start/end of every analysed event of the model window; per "
        "edge: forward in time, CPEdge.weight and graph weight >= 0, weight = time difference or 0 by type, and type-specific "
        "endpoint rules (launch call -> its own activity; consecutive kernels of one stream; kernel end -> end of the blocking "
        "sync call that waited on its stream / start of a kernel on another stream; operator edges within one thread or one "
        "kernel). Non-trivial: graph has >= 4 of the 5 edge types and kernels on >= 2 streams. Distinct = distinct canonical "
        "case JSON.")
ASSUMPTIONS = [
    "causal consistency by construction: activity start >= launch start, FIFO streams, a sync call returns no earlier than the end "
    "of all work enqueued on its stream(s) before it; no launch races with a host call blocked on the same stream",
    "fewer device syncs when a second thread launches kernels (no cross-thread races)",
    "the selected annotation instance range is non-empty and the window contains an analysed kernel or childless non-blocking "
    "operator of positive length, so that a path of positive weight exists (else annotation '' is used); a window whose "
    "edges all weigh 0 has no critical path and the analysis asserts",
    "CUDA event record / stream-wait / event-synchronize calls are generated (with their wait_on_* arguments); the property does "
    "not require their synchronisation edges to exist, only that existing edges are typed and weighted correctly",
]


def check(case: Dict[str, Any]) -> CaseInfo:
    with scratch_dir() as d:
        run = CPRun(case, d)
        return check_graph(run)


def check_graph(run: CPRun) -> CaseInfo:
    g, w = run.graph, run.window
    p = run.case["params"]
    shift = run.min_ts
    nodes = list(g.node_list)
    # ---- nodes -------------------------------------------------------------------------------------
    want = Counter()
    for r in w.analysed.values():
        want[(r.id, r.ts - shift, True)] += 1
        want[(r.id, r.end - shift, False)] += 1
    got = Counter((int(n.ev_idx), float(n.ts), bool(n.is_start)) for n in nodes)
    require(got == want, "nodes:one_start_one_end_per_analysed_event",
            lambda: f"missing {sorted((want - got).elements())[:8]} extra {sorted((got - want).elements())[:8]} "
                    f"window [{w.start - shift},{w.end - shift}] annotation {p['annotation']!r} inst {p['instance']}")
    require(set(g.nodes) <= set(range(len(nodes))) and all(n.idx == i for i, n in enumerate(nodes)), "nodes:ids",
            lambda: f"{sorted(g.nodes)[:10]}")
    for ev, nid in g.event_to_start_node_map.items():
        require(nodes[nid].ev_idx == ev and nodes[nid].is_start, "nodes:start_map", f"{ev}->{nid}")
    for ev, nid in g.event_to_end_node_map.items():
        require(nodes[nid].ev_idx == ev and not nodes[nid].is_start, "nodes:end_map", f"{ev}->{nid}")
    # ---- edges -------------------------------------------------------------------------------------
    edges = edge_objects(g)
    _, acyclic = topo_longest_path(list(g.nodes), [(u, v, float(wt)) for u, v, _, wt in edges])
    require(acyclic, "graph:acyclic", lambda: f"{len(edges)} edges")
    types = Counter()
    kernels = w.kernels()
    by_stream: Dict[int, List[Any]] = {}
    for k in kernels:
        by_stream.setdefault(k.stream, []).append(k)
    span_edge_seen = set()
    launch_edges = set()
    for u, v, e, gw in edges:
        src, dst = nodes[u], nodes[v]
        a, b = w.analysed[int(src.ev_idx)], w.analysed[int(dst.ev_idx)]
        t = e.type.name
        types[t] += 1
        desc = lambda: (f"{t} {a.id}:{a.name}[{a.ts - shift},{a.end - shift}]({'S' if src.is_start else 'E'}) -> "  # noqa: E731
                        f"{b.id}:{b.name}[{b.ts - shift},{b.end - shift}]({'S' if dst.is_start else 'E'}) weight {e.weight}/{gw}")
        require(e.begin == u and e.end == v, "edge:object_matches_graph", desc)
        require(dst.ts >= src.ts, "edge:forward_in_time", desc)
        require(e.weight >= 0 and gw >= 0, "edge:non_negative_weight", desc)
        dt = dst.ts - src.ts
        if t in ("DEPENDENCY", "SYNC_DEPENDENCY"):
            require(e.weight == 0 and gw == 0, "edge:zero_weight_dependency", desc)
        elif t == "OPERATOR_KERNEL":
            closing_blocking = (not dst.is_start) and b.name in BLOCKING_CALLS and b.stream == -1
            require(e.weight == dt or (closing_blocking and e.weight == 0), "edge:span_weight", desc)
            if (not dst.is_start) and src.is_start and a.id == b.id and b.name in SYNC_CALLS and b.stream == -1:
                # the span of a synchronising (blocking) call weighs zero; for cudaMemcpyAsync either reading is accepted
                require(e.weight == 0, "edge:blocking_call_weighs_zero", desc)
            require(gw == e.weight, "edge:graph_weight_is_object_weight", desc)
        elif t == "KERNEL_LAUNCH_DELAY":
            require(e.weight == dt or (p["zero_weight_launch_edges"] and e.weight == 0), "edge:launch_delay_weight", desc)
            require(gw == e.weight, "edge:graph_weight_is_object_weight", desc)
        elif t == "KERNEL_KERNEL_DELAY":
            require(e.weight == dt and gw == dt, "edge:kernel_kernel_weight", desc)
        # ---- typing ----
        if t == "KERNEL_LAUNCH_DELAY":
            require(src.is_start and dst.is_start and a.stream == -1 and b.stream != -1 and w.lk[b.id] == a.id and w.lk[a.id] == b.id,
                    "type:launch_delay_joins_launch_and_its_activity", desc)
            launch_edges.add((a.id, b.id))
        elif t == "KERNEL_KERNEL_DELAY":
            ok = (not src.is_start) and dst.is_start and a.stream == b.stream and a.stream != -1 and a.id != b.id \
                and a.cat != "cuda_sync" and b.cat != "cuda_sync"
            require(ok, "type:kernel_kernel_joins_kernels_of_one_stream", desc)
            between = [k for k in by_stream[a.stream] if k.id not in (a.id, b.id) and
                       (a.ts < k.ts < b.ts or (a.ts < k.ts == b.ts and k.end < b.end) or (a.ts == k.ts < b.ts and k.end > a.end))]
            require(not between and a.ts <= b.ts, "type:kernel_kernel_joins_consecutive_kernels",
                    lambda: desc() + f" between {[(k.id, k.ts - shift, k.end - shift) for k in between]}")
        elif t == "SYNC_DEPENDENCY":
            require((not src.is_start) and a.stream != -1 and a.cat != "cuda_sync", "type:sync_from_kernel_end", desc)
            if dst.is_start:
                require(b.stream != -1 and b.stream != a.stream and b.cat != "cuda_sync", "type:sync_to_kernel_start_on_other_stream", desc)
            else:
                require(b.stream == -1 and b.name in SYNC_CALLS, "type:sync_to_end_of_blocking_call", desc)
                recs = [r for r in w.rows if r.cat == "cuda_sync" and w.lk.get(r.id, 0) == b.id]
                require(len(recs) == 1, "type:sync_call_has_record", desc)
                rec = recs[0]
                require(rec.name == "Context Sync" or rec.stream == a.stream, "type:sync_waits_on_kernel_stream",
                        lambda: desc() + f" record {rec.name} stream {rec.stream}")
                require(a.ts <= rec.end, "type:sync_kernel_started_before_wait_finished", desc)
        elif t == "OPERATOR_KERNEL":
            if a.stream != -1 or b.stream != -1:
                require(a.id == b.id and src.is_start and not dst.is_start, "type:kernel_span_is_start_to_end_of_one_kernel", desc)
                span_edge_seen.add(a.id)
            else:
                require((a.pid, a.tid) == (b.pid, b.tid), "type:operator_edge_within_one_thread", desc)
        elif t == "DEPENDENCY":
            require(a.stream == -1 and b.stream == -1 and (a.pid, a.tid) == (b.pid, b.tid) and (not src.is_start) and dst.is_start,
                    "type:dependency_between_consecutive_ops_of_a_thread", desc)
        else:
            require(False, "type:unknown", desc)
    for k in kernels:
        require(k.id in span_edge_seen, "edge:kernel_span_present", lambda: f"kernel {k.id} {k.name} has no start->end edge")
    if p["zero_weight_launch_edges"]:
        # CRITICAL_PATH_ADD_ZERO_WEIGHT_LAUNCH_EDGE=1 ("we always add a 0 weight edge for runtime launch -> kernel"): every analysed
        # activity whose launch call is analysed too is joined to it, whether or not the launch delay bounds its start
        for k in kernels:
            lid = w.lk.get(k.id, 0)
            if lid > 0 and lid in w.analysed and k.cat != "cuda_sync":
                require((lid, k.id) in launch_edges, "edge:launch_edge_present_when_option_on",
                        lambda: f"kernel {k.id} {k.name} [{k.ts - shift},{k.end - shift}] has no edge from its launch call {lid}")
    classes = [f"type:{t}" for t in types]
    classes.append(f"annotation:{'all' if p['annotation'] == '' else 'step' if p['annotation'].startswith('Profiler') else 'user'}")
    classes.append("zero_weight_edges_on" if p["zero_weight_launch_edges"] else "zero_weight_edges_off")
    if p.get("strict_negative_weight_check"):
        classes.append("strict_negative_weight_check_on")
    if len(by_stream) >= 2:
        classes.append("multi_stream")
    if isinstance(p["instance"], list):
        classes.append("instance_range")
    if any((not nodes[v].is_start) and w.analysed[int(nodes[v].ev_idx)].name in BLOCKING_CALLS and e.weight == 0 and
           nodes[v].ts > nodes[u].ts for u, v, e, _ in edges if e.type.name == "OPERATOR_KERNEL"):
        classes.append("blocking_call_zeroed")
    if not kernels:
        classes.append("no_kernels_in_window")
    if any(e.type.name == "SYNC_DEPENDENCY" and nodes[v].is_start for u, v, e, _ in edges):
        classes.append("gpu_gpu_sync_edge")
    if any(r.name in ("cudaEventRecord", "cudaStreamWaitEvent", "cudaEventSynchronize") for r in w.rows):
        classes.append("cuda_event_calls")
    nt = len(types) >= 4 and len(by_stream) >= 2
    return CaseInfo(nontrivial=nt, classes=classes)


def campaigns(tier: str) -> List[Campaign]:
    return [Campaign("graph", cp_case(), check, quick=640, thorough=11200, quick_shards=8,
                     required_classes={"type:KERNEL_LAUNCH_DELAY": 0.3, "type:KERNEL_KERNEL_DELAY": 0.1, "type:SYNC_DEPENDENCY": 0.1,
                                       "type:DEPENDENCY": 0.3, "multi_stream": 0.1, "annotation:step": 0.1, "annotation:user": 0.03,
                                       "zero_weight_edges_on": 0.2, "nontrivial": 0.05},
                     sample_view=view)]
