"""G-span: properly nested span families on one host thread (C03).

Recursive construction of a forest with shared start/end instants, identical spans, back-to-back
siblings and zero-duration events at every kind of position.  Event ids are an arbitrary strictly
increasing injection of the file positions (gaps allowed, as after filtering) and the rows are handed
to the builders in a drawn permutation.
"""
from __future__ import annotations

from typing import Any, Dict, List, Tuple

from hypothesis import strategies as st

MAX_EVENTS = 26


@st.composite
def _children(draw, lo: int, hi: int, depth: int, out: List[Tuple[int, int]], budget: List[int]) -> None:
    """Append (ts, dur) of a sequence of siblings inside [lo, hi] (and their descendants) to out."""
    if budget[0] <= 0:
        return
    k = draw(st.sampled_from([1, 2, 3, 4, 5] if depth == 0 else [0, 1, 2, 2, 3, 3]))
    cursor = lo
    for _ in range(k):
        if budget[0] <= 0:
            break
        gap = draw(st.sampled_from([0, 0, 0, 1, 2]))
        start = cursor + gap
        if start > hi:
            break
        room = hi - start
        kind = draw(st.sampled_from(["zero", "pos", "pos", "pos", "pos"]))
        if kind == "zero" or room == 0:
            budget[0] -= 1
            out.append((start, 0))
            # several zero events at one instant
            while budget[0] > 0 and draw(st.sampled_from([False] * 5 + [True])):
                budget[0] -= 1
                out.append((start, 0))
            cursor = start
            continue
        dur = room if draw(st.sampled_from([True, False, False])) else draw(st.sampled_from(list(range(1, room + 1))))
        budget[0] -= 1
        out.append((start, dur))
        # identical span nested inside (same start, same end)
        while budget[0] > 0 and draw(st.sampled_from([False] * 9 + [True])):
            budget[0] -= 1
            out.append((start, dur))
        if depth < 4 and draw(st.sampled_from([True, True, True, False])):
            draw(_children(start, start + dur, depth + 1, out, budget))
        cursor = start + dur


@st.composite
def span_family(draw, max_events: int = MAX_EVENTS) -> Dict[str, Any]:
    """{"spans": [[id, ts, dur], ...] in file order, "row_order": permutation, "offset": int}"""
    out: List[Tuple[int, int]] = []
    budget = [draw(st.sampled_from(list(range(3, max_events + 1))))]
    hi = draw(st.sampled_from([3, 6, 8, 10, 12, 16, 20, 24, 30]))
    draw(_children(0, hi, 0, out, budget))
    if not out:
        out.append((0, draw(st.integers(0, 3))))
    n = len(out)
    # file order: a drawn permutation of the generated events
    perm = draw(st.permutations(list(range(n))))
    ordered = [out[i] for i in perm]
    # ids: strictly increasing injection of the file positions
    gaps = draw(st.lists(st.integers(0, 3), min_size=n, max_size=n))
    first = draw(st.sampled_from([0, 1, 5, 1000]))
    ids, cur = [], first
    for g in gaps:
        cur += g
        ids.append(cur)
        cur += 1
    offset = draw(st.sampled_from([0, 0, 7, 10**9]))
    spans = [[ids[i], ordered[i][0] + offset, ordered[i][1]] for i in range(n)]
    row_order = list(draw(st.permutations(list(range(n)))))
    # scale 4: every stamp and duration divided by 4 (quarter-microsecond times, as in traces loaded with ns rounding disabled)
    return {"spans": spans, "row_order": row_order, "scale": draw(st.sampled_from([1, 1, 1, 4]))}


# ------------------------------------------------------------------------------------------------
# reference model
def model_parents(spans: List[List[int]]) -> Dict[int, int]:
    """Parent (id or -1 for the virtual root) of every positive-duration event: the innermost
    event whose span contains it; identical spans nest in id (= file) order; touching spans are
    siblings."""
    pos = [(i, ts, ts + d) for i, ts, d in spans if d > 0]
    parents: Dict[int, int] = {}
    for i, s, e in pos:
        enc = [(ci, cs, ce) for ci, cs, ce in pos
               if ci != i and cs <= s and e <= ce and ((cs, ce) != (s, e) or ci < i)]
        if not enc:
            parents[i] = -1
        else:
            # the enclosers form a chain; the innermost is the shortest, and among identical ones the largest id
            enc.sort(key=lambda c: (c[2] - c[1], -c[0]))
            parents[i] = enc[0][0]
    return parents


def tie_kinds(spans: List[List[int]]) -> List[str]:
    kinds = set()
    pos = [(i, ts, ts + d) for i, ts, d in spans if d > 0]
    zero = [(i, ts) for i, ts, d in spans if d == 0]
    for a in pos:
        for b in pos:
            if a[0] >= b[0]:
                continue
            if (a[1], a[2]) == (b[1], b[2]):
                kinds.add("identical")
            elif a[1] == b[1]:
                kinds.add("shared_start")
            elif a[2] == b[2]:
                kinds.add("shared_end")
            if a[2] == b[1] or b[2] == a[1]:
                kinds.add("touching")
    ends = {p[2] for p in pos}
    starts = {p[1] for p in pos}
    for _, t in zero:
        if t in ends and t in starts:
            kinds.add("zero_at_touching_boundary")
        elif t in ends:
            kinds.add("zero_at_end")
        elif t in starts:
            kinds.add("zero_at_start")
        elif any(p[1] < t < p[2] for p in pos):
            kinds.add("zero_interior")
        else:
            kinds.add("zero_outside")
    if len(zero) != len({t for _, t in zero}):
        kinds.add("zero_same_instant")
    return sorted(kinds)


def max_depth(spans: List[List[int]]) -> int:
    par = model_parents(spans)
    best = 0
    for i in par:
        d, j = 0, i
        while par[j] != -1:
            j = par[j]
            d += 1
        best = max(best, d)
    return best
