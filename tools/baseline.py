#!/usr/bin/env python3
"""Run the repository's pinned baseline (guard OFF) and compare with BASELINE.json stable_pass.
usage: tools/baseline.py [repo_dir]   exit 0 iff every stable_pass test passed."""
import json, os, subprocess, sys, tempfile
import xml.etree.ElementTree as ET

repo = sys.argv[1] if len(sys.argv) > 1 else "/repo"
base = json.load(open("/root/.vp/BASELINE.json")) if os.path.exists("/root/.vp/BASELINE.json") else None
with tempfile.TemporaryDirectory(dir=os.path.dirname(os.path.abspath(__file__))) as d:
    xml = os.path.join(d, "j.xml")
    env = dict(os.environ)
    env.pop("HTA_VERIF", None)
    env["PYTHONPATH"] = repo
    subprocess.run(["/venv/bin/python", "-m", "pytest", "-q", "-p", "no:cacheprovider", "--timeout=900",
                    "--continue-on-collection-errors", "--junitxml=" + xml],
                   cwd=repo, env=env, stdout=subprocess.DEVNULL, stderr=subprocess.DEVNULL)
    passed = set()
    for tc in ET.parse(xml).getroot().iter("testcase"):
        if not any(c.tag in ("failure", "error", "skipped") for c in tc):
            passed.add(f"{tc.get('classname')}::{tc.get('name')}")
if base is None:
    print(f"passed={len(passed)} (no BASELINE.json to compare)")
    sys.exit(0)
missing = [t for t in base["stable_pass"] if t not in passed]
print(f"passed={len(passed)} stable_pass={len(base['stable_pass'])} missing={len(missing)}")
for m in missing:
    print("  MISSING", m)
sys.exit(1 if missing else 0)
