"""Child interpreter of the C11 differential runs.

usage: python -m hv.c11_child <config.json>   (PYTHONHASHSEED is set by the parent)
Prints one JSON line: {"numbering": <hash of the symbol->id map>, "ranks": {...decoded rows...},
"analyses": {...canonical analysis outputs with names decoded...}}
"""
from __future__ import annotations

import hashlib
import json
import math
import sys
import time


def canon_value(v):
    try:
        import numpy as np

        if isinstance(v, (np.integer,)):
            return int(v)
        if isinstance(v, (np.floating,)):
            v = float(v)
    except Exception:  # noqa: BLE001
        pass
    if isinstance(v, float):
        if math.isnan(v):
            return "nan"
        if v == int(v) and abs(v) < 1e15:
            return int(v)
        return round(v, 9)
    if isinstance(v, (int, str)) or v is None:
        return v
    if isinstance(v, bool):
        return bool(v)
    return str(v)


def frame_rows(df, decode=None, sort=True):
    cols = list(df.columns)
    rows = []
    for tup in df.itertuples(index=False):
        row = []
        for c, v in zip(cols, tup):
            if decode and c in decode:
                v = decode[c](v)
            row.append(canon_value(v))
        rows.append(row)
    if sort:
        rows.sort(key=lambda r: json.dumps(r, default=str))
    return {"columns": cols, "rows": rows}


def main() -> int:
    cfg = json.load(open(sys.argv[1]))
    import logging
    import warnings

    logging.disable(logging.CRITICAL)
    warnings.filterwarnings("ignore")
    import hta.common.trace as tr
    from hta.common.trace import Trace
    from hta.trace_analysis import TraceAnalysis

    delays = cfg.get("delays") or {}
    if delays:
        orig = tr.parse_trace_file

        def delayed(path, cfg_=None):
            res = orig(path, cfg_)
            time.sleep(delays.get(path, 0.0))  # the worker finishes this file after the chosen delay
            return res

        tr.parse_trace_file = delayed  # patched before the pool forks: the harness owns the completion order
    files = {int(k): v for k, v in cfg["files"]}  # insertion order as given
    t = Trace(files, cfg["dir"])
    stable = {"ids": True, "decoding": True, "detail": ""}
    if cfg.get("batches"):
        # incremental load on one Trace object: ranks are added batch by batch (parse_single_rank / parse_multiple_ranks);
        # ids assigned earlier must stay, and rows loaded earlier must keep decoding to their strings
        snap_ids = {}
        snap_rows = {}
        for batch in cfg["batches"]:
            rs = [int(r) for r in batch["ranks"]]
            if batch.get("single") and len(rs) == 1:
                t.parse_single_rank(rs[0])
            else:
                t.parse_multiple_ranks(rs, use_multiprocessing=cfg["mp"] and len(rs) > 1)
            idmap = dict(t.symbol_table.get_sym_id_map())
            tab_now = list(t.symbol_table.get_sym_table())
            for sname, i in snap_ids.items():
                if idmap.get(sname) != i and stable["ids"]:
                    stable["ids"] = False
                    stable["detail"] = f"id of {sname!r} changed from {i} to {idmap.get(sname)} after adding ranks {rs}"
            for rank, rows in snap_rows.items():
                try:
                    now = [(tab_now[int(a)], tab_now[int(b)]) for a, b in zip(t.traces[rank]["name"], t.traces[rank]["cat"])]
                except Exception as e:  # noqa: BLE001
                    now = type(e).__name__
                if now != rows and stable["decoding"]:
                    stable["decoding"] = False
                    stable["detail"] = f"rows of rank {rank} decode differently after adding ranks {rs}"
            snap_ids.update(idmap)
            for rank in rs:
                snap_rows[rank] = [(tab_now[int(a)], tab_now[int(b)]) for a, b in zip(t.traces[rank]["name"], t.traces[rank]["cat"])]
    elif cfg.get("order"):
        t.parse_multiple_ranks([int(r) for r in cfg["order"]], use_multiprocessing=cfg["mp"])
    if cfg.get("batches") or cfg.get("order"):
        t.is_parsed = True
        t.align_and_filter_trace(False)
        for rank in list(t.traces):
            df = t.traces[rank].set_index("index", drop=False)
            df.index.names = [None]
            t.traces[rank] = df
    else:
        t.load_traces(use_multiprocessing=cfg["mp"])
    ta = TraceAnalysis.__new__(TraceAnalysis)
    ta.t = t
    tab = t.symbol_table.get_sym_table()
    out = {"numbering": hashlib.sha1(json.dumps(sorted(t.symbol_table.get_sym_id_map().items())).encode()).hexdigest()[:12],
           "bijection": all(tab[i] == s for s, i in t.symbol_table.get_sym_id_map().items()) and len(set(tab)) == len(tab),
           "stable": stable, "ranks": {}, "analyses": {}}
    dec = lambda i: tab[i]  # noqa: E731
    for rank in sorted(t.traces):
        df = t.traces[rank]
        keep = ["index", "name", "cat", "ts", "dur", "pid", "tid", "stream", "correlation", "index_correlation", "iteration"]
        out["ranks"][str(rank)] = frame_rows(df[keep], {"name": dec, "cat": dec})

    def run(name, fn):
        try:
            out["analyses"][name] = fn()
        except Exception as e:  # noqa: BLE001
            out["analyses"][name] = {"raises": type(e).__name__}

    ranks = sorted(t.traces)
    run("temporal_breakdown", lambda: frame_rows(ta.get_temporal_breakdown(visualize=False)))
    run("comm_comp_overlap", lambda: frame_rows(ta.get_comm_comp_overlap(visualize=False)))
    run("kernel_breakdown", lambda: [frame_rows(x) for x in ta.get_gpu_kernel_breakdown(visualize=False, num_kernels=3)])
    run("kernel_breakdown_top1", lambda: [frame_rows(x) for x in ta.get_gpu_kernel_breakdown(visualize=False, num_kernels=1,
                                                                                              include_memory_kernels=True)])
    run("idle_time", lambda: frame_rows(ta.get_idle_time_breakdown(ranks=ranks, visualize=False)[0]))
    run("launch_stats", lambda: {str(r): frame_rows(d) for r, d in ta.get_cuda_kernel_launch_stats(ranks=ranks, visualize=False).items()})
    run("queue_length", lambda: {str(r): frame_rows(d.reset_index()) for r, d in ta.get_queue_length_time_series(ranks=ranks).items()})
    run("memory_bw", lambda: {str(r): frame_rows(d) for r, d in ta.get_memory_bw_time_series(ranks=ranks).items()})
    run("profiler_steps", lambda: [int(x) for x in ta.get_profiler_steps()])

    def cp():
        g, ok = ta.critical_path_analysis(rank=ranks[0], annotation="", instance_id=None)
        bd = g.get_critical_path_breakdown()
        cols = ["event_idx", "duration", "type", "s_name", "pid", "tid", "stream", "bound_by"]
        return {"ok": bool(ok), "path_events": sorted(int(x) for x in g.critical_path_events_set), "breakdown": frame_rows(bd[cols])}

    run("critical_path", cp)
    print("C11DIGEST " + json.dumps(out, default=str))
    return 0


if __name__ == "__main__":
    sys.exit(main())
