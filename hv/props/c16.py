"""C16 Frequent kernel sequences count exactly the kernels launched under each operator."""
from __future__ import annotations

import copy
import os
from typing import Any, Dict, List, Tuple

from hypothesis import strategies as st

from hv.core import Campaign, CaseInfo, hta_call, require
from hv.gen import vocab
from hv.gen.files import scratch_dir, write_case
from hv.gen.kineto_sim import DUR, SMALL, Opts, leaf_launch, pick, sim_case
from hv.model.calltree import CallTree
from hv.model.raw import complete_rows, links
from hv.model.trace import kept_after_load

ID = "C16"
RULE = ("G-sim traces with template reuse: 1-2 operator templates (an operator whose subtree launches 0-4 kernels, possibly through "
        "nested operators) are instantiated 2-6 times with variations (identical, a launch dropped, a kernel renamed, wrapped in an "
        "operator of the same name, wrapped in another operator), operator names where one is a substring of another, 0-3 profiler "
        "steps (trimming), dropped launches/activities; x operator_name (full name or substring) x min_pattern_len 0..4 x top_k "
        "1..5; with two ranks, half of the cases ask the same analysis for 1-2 (other or same) ranks on the same object first, every "
        "answer validated. Oracle: candidates = host events whose name contains the requested name, restricted to the minimum model depth, "
        "with >= min_pattern_len device descendants; pattern = name + descendant device names by start time; count, sum of "
        "operator durations, sum of kernel durations per pattern; rows by non-increasing count. Instances with two equal-start "
        "kernels of different names only check the totals. Non-trivial: >= 2 patterns and one with count >= 2. Distinct = "
        "distinct canonical case JSON.")
ASSUMPTIONS = [
    "operator names are disjoint from device-activity names",
    "no zero-duration host events and no synchronisation calls in these traces (tree placement and 'device activity' are then unambiguous)",
    "no autograd thread (re-parenting is C13)",
    "the trace contains exactly one profiler 'Trace' span entry, as Kineto writes it (the overlay step of this analysis annotates it)",
]
OPS = ["aten::add", "aten::add_", "aten::addmm", "aten::linear", "my_module", "my_module_v2",
       # names PyTorch really writes that contain regular-expression metacharacters: the operator name is matched literally
       "enumerate(DataLoader)#_SingleProcessDataLoaderIter.__next__", "torch/nn/modules/linear.py(114): forward"]
KNAMES = ["gemm_kernel_a", "gemm_kernel_b", "k_relu", "k_softmax", "Memcpy DtoD (Device -> Device)"]


def _launch(draw, o, streams, kname=None):
    n = draw(leaf_launch(o, streams))
    if kname:
        n["kname"] = kname
        n["kind"] = "kernel" if not kname.startswith("Mem") else "memcpy"
        n["name"] = "cudaLaunchKernel" if n["kind"] == "kernel" else vocab.MEMCPY_LAUNCH
    return n


def template_body(draw, o: Opts, streams: List[int]) -> List[Dict[str, Any]]:
    templates = []
    for _ in range(pick(draw, [1, 2])):
        name = pick(draw, OPS)
        kids: List[Dict[str, Any]] = []
        for _ in range(pick(draw, [2, 1, 2, 3, 4, 0])):
            l = _launch(draw, o, streams, pick(draw, KNAMES))
            if pick(draw, [False, False, True]):
                l = {"t": "op", "name": pick(draw, ["aten::mm", "aten::to", "aten::copy_"]), "cat": "cpu_op", "pre": pick(draw, SMALL),
                     "post": pick(draw, SMALL), "min": 0, "kids": [l]}
            kids.append(l)
        templates.append({"t": "op", "name": name, "cat": "cpu_op", "pre": pick(draw, SMALL), "post": pick(draw, SMALL),
                          "min": 1, "kids": kids})
    items = []
    for _ in range(pick(draw, [3, 2, 4, 5, 6])):
        inst = copy.deepcopy(pick(draw, templates))
        var = pick(draw, ["same", "same", "same", "drop", "rename", "wrap_same", "wrap_other", "fault", "wrap_python"])
        launches = [k for k in inst["kids"]]
        if var == "drop" and launches:
            inst["kids"] = inst["kids"][:-1]
        elif var == "rename" and launches:
            k = inst["kids"][0]
            tgt = k if k["t"] == "launch" else k["kids"][0]
            tgt["kname"] = pick(draw, ["gemm_kernel_a", "gemm_kernel_b", "k_relu"])
            tgt["kind"], tgt["name"] = "kernel", "cudaLaunchKernel"
        elif var == "wrap_same":
            inst = {"t": "op", "name": inst["name"], "cat": "cpu_op", "pre": pick(draw, SMALL), "post": pick(draw, SMALL), "min": 1,
                    "kids": [inst]}
        elif var == "wrap_other":
            inst = {"t": "op", "name": pick(draw, ["aten::linear", "forward", "aten::view"]),
                    "cat": pick(draw, ["cpu_op", "user_annotation"]), "pre": pick(draw, SMALL), "post": pick(draw, SMALL), "min": 1,
                    "kids": [inst]}
        elif var == "wrap_python":
            # with_stack=True: the operator sits beneath 1-2 python_function frames, i.e. deeper than its twin without them
            for _ in range(pick(draw, [1, 2])):
                inst = {"t": "op", "name": pick(draw, vocab.PYTHON_FRAMES), "cat": "python_function", "pre": pick(draw, SMALL),
                        "post": pick(draw, SMALL), "min": 1, "kids": [inst]}
        elif var == "fault" and launches:
            k = inst["kids"][-1]
            tgt = k if k["t"] == "launch" else k["kids"][0]
            tgt["fault"] = pick(draw, ["no_kernel", "no_launch"])
        inst["pre"] = pick(draw, SMALL)
        items.append(inst)
    return items


def model_patterns(rows_all, op_name: str, min_len: int):
    keep, free = kept_after_load(rows_all, include_last=False)
    rows = [r for r in rows_all if r.id in keep]
    by_id = {r.id: r for r in rows}
    lk_all = links(rows_all)
    lk = {r.id: (lk_all[r.id] if lk_all[r.id] in by_id else 0) for r in rows}
    tree = CallTree(rows, lk)
    depth = tree.depths()
    cands = [r for r in rows if op_name in r.name and r.id in depth]
    out: Dict[str, List[int]] = {}
    ambiguous = False
    if not cands:
        return out, ambiguous, 0
    dmin = min(depth[r.id] for r in cands)
    n_inst = 0
    for r in cands:
        if depth[r.id] != dmin:
            continue
        ks = [by_id[i] for i in tree.device_descendants(r.id)]
        if len(ks) < min_len:
            continue
        n_inst += 1
        ks.sort(key=lambda k: (k.ts, k.id))
        if any(a.ts == b.ts and a.name != b.name for a, b in zip(ks, ks[1:])):
            ambiguous = True
        pat = "|".join([r.name] + [k.name for k in ks])
        e = out.setdefault(pat, [0, 0, 0])
        e[0] += 1
        e[1] += sum(k.dur for k in ks)
        e[2] += r.dur
    return out, ambiguous, n_inst


def check(case: Dict[str, Any]) -> CaseInfo:
    from hv.hta_io import load_analysis

    p = case["params"]
    # the same analysis may have been asked for other ranks (or the same one) on this object before
    queries = list(p.get("before", [])) + [p["rank"]]
    results = []
    with scratch_dir() as d:
        files = write_case(case, d)
        ta = load_analysis(files, d, mp=False, prelude=case.get("prelude"))
        outdir = os.path.join(d, "out")
        os.makedirs(outdir)
        for rank in queries:
            results.append(hta_call("get_frequent_cuda_kernel_sequences", lambda: ta.get_frequent_cuda_kernel_sequences(
                operator_name=p["op"], output_dir=outdir, min_pattern_len=p["min_len"], rank=rank, top_k=p["top_k"], visualize=False)))
    info = None
    for k, (rank, df) in enumerate(zip(queries, results)):
        info = _validate(case, p, rank, df, f"call {k + 1} of {len(queries)} (ranks asked: {queries})")
    if len(set(queries)) > 1:
        info.classes.append("earlier_call_for_another_rank")
        if queries[-1] == 0:
            info.classes.append("rank_0_after_another_rank")
    return info


def _validate(case, p, rank, df, where) -> CaseInfo:
    classes: List[str] = []
    rows_all = complete_rows(next(r["events"] for r in case["ranks"] if r["rank"] == rank))
    want, ambiguous, n_inst = model_patterns(rows_all, p["op"], p["min_len"])
    if not want:
        require(len(df) == 0, "patterns:none_expected", lambda: where + "\n" + df.to_string())
        return CaseInfo(nontrivial=False, classes=["no_pattern"])
    require(len(df) > 0, "patterns:missing", lambda: f"{where}: expected {want}")
    got = {r["pattern"]: [int(r["count"]), float(r["GPU kernel duration (us)"]), float(r["CPU op duration (us)"])] for _, r in df.iterrows()}
    require(len(got) == len(df), "patterns:duplicate_rows", lambda: df.to_string())
    tot = lambda dct: [sum(v[i] for v in dct.values()) for i in range(3)]  # noqa: E731
    require(tot(got) == tot(want), "patterns:totals", lambda: f"{where}: rank {rank} op {p['op']!r} min_len {p['min_len']}: got {got}, expected {want}")
    if ambiguous:
        classes.append("ambiguous_kernel_order")
    else:
        require(got == want, "patterns:rows", lambda: f"{where}: rank {rank} op {p['op']!r} min_len {p['min_len']}: got {got}, expected {want}")
    counts = [int(c) for c in df["count"]]
    require(all(a >= b for a, b in zip(counts, counts[1:])), "patterns:descending_count", lambda: str(counts))
    if len(want) >= 2:
        classes.append("several_patterns")
    if any(v[0] >= 2 for v in want.values()):
        classes.append("repeated_pattern")
    if any("|" not in k for k in want):
        classes.append("pattern_without_kernels")
    names = {r.name for r in rows_all if p["op"] in r.name}
    if len(names) >= 2:
        classes.append("substring_matches_several_names")
    classes.append(f"min_len={p['min_len']}")
    if any(r.cat == "python_function" for r in rows_all):
        classes.append("python_function_frames")
    if any(ch in p["op"] for ch in "()[]|+*?"):
        classes.append("operator_name_with_regex_metacharacters")
    return CaseInfo(nontrivial=len(want) >= 2 and any(v[0] >= 2 for v in want.values()), classes=classes)


@st.composite
def c16_case(draw):
    o = Opts(fractional_stamps=True, unrounded=True, python_frames=True, steps=[0, 1, 2, 3], w_sync=0, p_zero_op=0, allow_zero_call=False, second_thread=True, autograd=False, device_sync=False,
             annotations=True, w_launch=6, max_top=3, max_depth=2, streams=2, body_fn=template_body, kernel_names=KNAMES)
    case = draw(sim_case(o, max_ranks=2, extras_trace_span=True, nranks_choices=[2, 1]))
    rank = draw(st.sampled_from([r["rank"] for r in case["ranks"]]))
    names = sorted({r.name for r in complete_rows(next(x["events"] for x in case["ranks"] if x["rank"] == rank))
                    if r.cat == "cpu_op" and r.stream == -1})
    tmpl = [n for n in names if n in OPS]
    op = draw(st.sampled_from((tmpl * 3 or names) + ["aten::add", "my_module", "aten::", "aten::linear"]))
    case["params"] = {"rank": rank, "op": op, "min_len": draw(st.sampled_from([1, 2, 0, 1, 2, 3, 4])),
                      "top_k": draw(st.sampled_from([1, 2, 5]))}
    all_ranks = [r["rank"] for r in case["ranks"]]
    if len(all_ranks) > 1 and draw(st.sampled_from([True, True, False])):
        case["params"]["before"] = [draw(st.sampled_from(all_ranks)) for _ in range(draw(st.sampled_from([1, 2])))]
    return case


def view(case):
    return {"params": case["params"], "ranks": [{"rank": r["rank"], "rows[id,cat,name,tid,ts,dur,stream,corr]": [
        [x.id, x.cat, x.name, x.tid, x.ts, x.dur, x.stream, x.correlation] for x in complete_rows(r["events"])]}
        for r in case["ranks"] if r["rank"] == case["params"]["rank"]]}


def campaigns(tier: str) -> List[Campaign]:
    return [Campaign("sequences", c16_case(), check, quick=480, thorough=11200, quick_shards=8,
                     required_classes={"unrounded_fractional_times": 0.05, "several_patterns": 0.07, "repeated_pattern": 0.2, "substring_matches_several_names": 0.03,
                                       "no_pattern": 0.02, "rank_0_after_another_rank": 0.015, "operator_name_with_regex_metacharacters": 0.02, "python_function_frames": 0.1},
                     sample_view=view)]
