"""C01 Loaded events are a faithful, uniformly time-shifted image of the trace file."""
from __future__ import annotations

import math
from typing import Any, Dict, List

from hv.core import Campaign, CaseInfo, hta_call, require
from hv.gen.files import scratch_dir, write_case
from hv.gen.kineto_sim import Opts, sim_case
from hv.gen.rawfile import raw_case
from hv.model.raw import complete_rows

ID = "C01"
RULE = ("G-raw file sets: 1-4 ranks (one case in eight: 9 ranks, where the pooled loader sizes its pool by memory profiling), .json/.json.gz per rank, first entry a host operator, then 0-14 entries in arbitrary order: "
        "complete events (host and device, args with/without stream and correlation, string-valued streams, unknown args), "
        "metadata M, flow s/f (ac2g, fwdbwd), instant, counter, the 'Trace' span with string pid/tid, entries with a category but "
        "no duration, a duration but no category, or a null duration; integer or fractional stamps; epoch 0 .. 1.7e15; "
        "parse_traces(), load_traces() and TraceAnalysis(), multiprocessing on and off. A second campaign loads G-sim traces. "
        "Oracle: id set per rank == positions of the model's complete events (both directions, no duplicates); name/cat decoded "
        "through the symbol table, pid, tid, dur, stream, correlation equal the file's values; fractional files: ts = ceil(ts), "
        "end = floor(ts+dur) on the doubles parsed from the same text, dur = end - ts, and containment / disjointness of any two "
        "events of one (pid, tid) is preserved; after load: every ts == rounded file ts - min over all ranks, the overall minimum "
        "is 0 and end == ts + dur. Non-trivial: >= 2 entry kinds besides complete events and (>= 2 ranks or fractional stamps). "
        "Distinct = distinct canonical case JSON.")
ASSUMPTIONS = [
    "only the JSON parser backend (ijson is not installed)",
    "fewer than two distinct ProfilerStep names, so loading trims nothing (trimming is C12)",
    "complete events carry a name; the first entry carries an args object",
    "in fractional files at least one stamp is fractional or some entry has no ts (the rounding branch keys on a floating ts column)",
]


def ex(v):
    """Exact value of a stamp: an int when it is whole (64-bit integers beyond 2**53 must not pass through a double)."""
    try:
        import numpy as np

        if isinstance(v, (int, np.integer)) and not isinstance(v, bool):
            return int(v)
    except Exception:  # noqa: BLE001
        pass
    f = float(v)
    return int(f) if f.is_integer() else f


def rounded(r, fractional_column: bool):
    """(ts, dur, end) as the loader must report them, from the doubles of the file."""
    if not fractional_column:
        return r.ts, r.dur, r.ts + r.dur
    ts = math.ceil(r.ts)
    end = math.floor(r.ts + r.dur)
    return ts, end - ts, end


def check(case: Dict[str, Any]) -> CaseInfo:
    from hv.hta_io import load_analysis, load_trace

    classes: List[str] = []
    mode = case.get("mode", "load")
    with scratch_dir() as d:
        files = write_case(case, d)
        if mode == "dir":
            # rank discovery from the files' metadata (no explicit rank -> file map)
            from hta.trace_analysis import TraceAnalysis
            from hv.hta_io import quiet

            quiet()
            t = hta_call("TraceAnalysis(trace_dir)", lambda: TraceAnalysis(trace_dir=d)).t
            require(sorted(t.traces) == sorted(files), "dir:ranks_from_metadata", lambda: f"{sorted(t.traces)} vs {sorted(files)}")
        elif mode == "parse":
            t = load_trace(files, d, parse_only=True, mp=case.get("mp", False))
        elif mode == "analysis":
            t = load_analysis(files, d, mp=True).t
        else:
            t = load_trace(files, d, mp=case.get("mp", False))
    sym = t.symbol_table.get_sym_table()
    expected: Dict[int, Dict[int, Any]] = {}
    min_ts = None
    kinds = set()
    for rd in case["ranks"]:
        events = rd["events"]
        rows = complete_rows(events)
        # the ts column is floating as soon as one stamp is fractional or one entry has no ts
        frac_col = any(isinstance(e.get("ts"), float) for e in events) or any("ts" not in e for e in events)
        exp = {}
        for r in rows:
            ts, dur, end = rounded(r, frac_col)
            exp[r.id] = (r, ts, dur, end)
            min_ts = ts if min_ts is None else min(min_ts, ts)
        expected[rd["rank"]] = exp
        for e in events:
            if not (e.get("ph") == "X" and e.get("dur") is not None and e.get("cat") not in (None, "Trace")):
                kinds.add(e.get("ph") + ":" + str(e.get("cat", "")) if e.get("ph") != "X" else
                          ("X:Trace" if e.get("cat") == "Trace" else "X:incomplete"))
    shift = 0 if mode == "parse" else min_ts
    if mode != "parse":
        require(int(t.min_ts) == min_ts, "load:min_ts", lambda: f"{t.min_ts} vs {min_ts}")
    overall_min = None
    for rd in case["ranks"]:
        rank = rd["rank"]
        df = t.get_trace(rank)
        exp = expected[rank]
        ids = [int(i) for i in df["index"]]
        require(len(ids) == len(set(ids)), "rows:duplicated", lambda: str(sorted(ids)))
        require(set(ids) == set(exp), "rows:exactly_the_complete_events",
                lambda: f"rank {rank}: missing {sorted(set(exp) - set(ids))} invented {sorted(set(ids) - set(exp))}")
        if mode != "parse":
            require([int(i) for i in df.index] == ids, "load:index_is_id", "")
        recs = {int(row["index"]): row for row in df.to_dict("records")}
        for i, (r, ts, dur, end) in exp.items():
            g = recs[i]
            desc = lambda: f"rank {rank} entry {i} {rd['events'][i]}: got {({k: g[k] for k in ('name', 'cat', 'pid', 'tid', 'ts', 'dur', 'end', 'stream', 'correlation')})}"  # noqa: E731
            require(sym[int(g["name"])] == r.name, "field:name", desc)
            require(sym[int(g["cat"])] == r.cat, "field:cat", desc)
            require(g["pid"] == r.pid and g["tid"] == r.tid, "field:pid_tid", desc)
            require(ex(g["dur"]) == ex(dur), "field:dur", lambda: desc() + f" expected dur {dur}")
            require(int(g["stream"]) == r.stream, "field:stream", desc)
            require(int(g["correlation"]) == int(r.correlation), "field:correlation", desc)
            require(ex(g["ts"]) == ex(ts - shift), "time:ts_is_file_ts_minus_constant", lambda: desc() + f" expected ts {ts} - {shift}")
            require(ex(g["end"]) == ex(g["ts"]) + ex(g["dur"]), "time:end_is_ts_plus_dur", desc)
            # (ts - shift) + dur, in this order: with a fractional dur the two roundings of (ts + dur) - shift differ in the last bit
            require(ex(g["end"]) == ex((ts - shift) + dur), "time:end", lambda: desc() + f" expected end ({ts} - {shift}) + {dur}")
            overall_min = ex(g["ts"]) if overall_min is None else min(overall_min, ex(g["ts"]))
        # rounding is inward and preserves containment / disjointness within one (pid, tid)
        items = list(exp.values())
        for r, ts, dur, end in items:
            require(ts >= r.ts and (end <= r.ts + r.dur), "rounding:inward", lambda: f"entry {r.id}: [{r.ts},{r.ts + r.dur}] -> [{ts},{end}]")
        for a, ats, _, aend in items:
            for b, bts, _, bend in items:
                if a.id == b.id or (a.pid, a.tid) != (b.pid, b.tid):
                    continue
                if a.ts <= b.ts and b.ts + b.dur <= a.ts + a.dur:
                    require(ats <= bts and bend <= aend, "rounding:containment_preserved", lambda: f"{a.id} contains {b.id}")
                if a.ts + a.dur <= b.ts:
                    require(aend <= bts, "rounding:disjointness_preserved", lambda: f"{a.id} before {b.id}")
    if mode != "parse":
        require(overall_min == 0, "time:earliest_event_at_zero", lambda: f"{overall_min}")
    frac = case.get("fractional", False)
    classes += ["kind:" + k for k in kinds]
    classes.append("mode:" + mode)
    if frac == "dur":
        classes.append("whole_ts_fractional_dur")
    elif frac:
        classes.append("fractional")
    if len(case["ranks"]) >= 2:
        classes.append("multi_rank")
    if case.get("huge_epoch"):
        classes.append("stamps_beyond_2**53")
    if len(case["ranks"]) > 8:
        classes.append("more_than_8_ranks")
    if case.get("big_vocab"):
        classes.append("job_vocabulary_above_127_one_file_below")
    if case.get("mp") or mode in ("analysis", "dir"):
        classes.append("multiprocessing")
    if any(r.ts != ts for exp in expected.values() for r, ts, _, _ in exp.values()):
        classes.append("rounding_changes_a_stamp")
    if any(dur < 0 for exp in expected.values() for _, _, dur, _ in exp.values()):
        classes.append("rounded_to_negative_duration")
    fmts = case.get("fmt")
    if isinstance(fmts, list) and len(set(fmts[: len(case["ranks"])])) >= 2:
        classes.append("mixed_formats")
    nt = len(kinds) >= 2 and (len(case["ranks"]) >= 2 or bool(frac))
    return CaseInfo(nontrivial=nt, classes=classes)


def view(case):
    return {"mode": case.get("mode"), "mp": case.get("mp"), "fmt": case.get("fmt"),
            "ranks": [{"rank": r["rank"], "events": r["events"][:8]} for r in case["ranks"][:2]]}


def sim_load_case():
    from hypothesis import strategies as st

    @st.composite
    def _c(draw):
        case = draw(sim_case(Opts(steps=[0, 1], max_top=4), max_ranks=3))
        case["mode"] = draw(st.sampled_from(["load", "parse", "analysis"]))
        return case

    return _c()


def campaigns(tier: str) -> List[Campaign]:
    return [
        Campaign("raw_files", raw_case(), check, quick=640, thorough=32000, quick_shards=8,
                 required_classes={"fractional": 0.1, "multi_rank": 0.4, "kind:M:": 0.25, "kind:X:Trace": 0.1, "kind:X:incomplete": 0.1,
                                   "mode:parse": 0.1, "mode:load": 0.15, "mode:analysis": 0.12, "rounding_changes_a_stamp": 0.07,
                                   "multiprocessing": 0.2, "more_than_8_ranks": 0.025, "stamps_beyond_2**53": 0.04, "whole_ts_fractional_dur": 0.1, "job_vocabulary_above_127_one_file_below": 0.05},
                 sample_view=view),
        Campaign("sim_files", sim_load_case(), check, quick=160, thorough=8000, quick_shards=8, sample_view=view),
    ]
