"""hv - property-based verification harness for HolisticTraceAnalysis (see /verif/DESIGN.md)."""
