"""C14 Queue-length and memory-bandwidth counters are exact step functions."""
from __future__ import annotations

import math
import os
from typing import Any, Dict, List, Tuple

from hypothesis import strategies as st

from hv.core import Campaign, CaseInfo, hta_call, require
from hv.gen import vocab
from hv.gen.files import read_any, scratch_dir, write_case
from hv.gen.kineto_sim import Opts, sim_case
from hv.model.raw import complete_rows, is_device, links

ID = "C14"
RULE = ("G-sim traces (1-2 ranks, >= 1 stream, launch delay 0 frequent so kernels start at their launch instant, zero-duration "
        "launch calls so several launches share an instant, DtoH/HtoD/DtoD/Memset/dma copies incl. zero-length ones, fault "
        "injection) x requested ranks x time-series flags. Oracle: per stream the series has exactly one row per linked "
        "launch/activity event at its (shifted) timestamp, in non-decreasing time, each row changes the value by +1 (launch) / "
        "-1 (start), after the last row of an instant the value is #launches<=t - #starts<=t, no row is negative, last is 0; "
        "bandwidth after the last row of an instant = sum of bw of copies with ts <= t < ts+max(dur,1); the counter events of the "
        "written file reproduce both series, in order, at the file's unshifted timestamps. Non-trivial: >= 2 streams and an "
        "instant shared by a launch and a kernel start on one stream. Distinct = distinct canonical case JSON.")
ASSUMPTIONS = [
    "fewer than two ProfilerStep annotations (no trimming)",
    "'never negative' is asserted for the streams on which no activity starts before its launch call; one launch in five is "
    "stamped 1-2 us after its activity (clock skew), and on those streams negative values are expected",
    "launch calls = the runtime launch names of hv/gen/vocab.py (kernel, memcpy, memset launches)",
    "bandwidth sums compared with 1e-9 relative tolerance",
]
LAUNCHES = set(vocab.LAUNCH_NAMES) | {vocab.MTIA_LAUNCH}


def model_queue(rows) -> Dict[int, List[Tuple[int, int, int]]]:
    """stream -> list of (event id, ts, +1/-1)."""
    lk = links(rows)
    by_id = {r.id: r for r in rows}
    out: Dict[int, List[Tuple[int, int, int]]] = {}
    for r in rows:
        if r.stream == -1 and not is_device(r) and r.name in LAUNCHES and lk[r.id] > 0:
            g = by_id[lk[r.id]]
            if g.stream == -1:
                continue
            out.setdefault(g.stream, []).append((r.id, r.ts, +1))
            out[g.stream].append((g.id, g.ts, -1))
    return out


def model_bw(rows) -> Dict[str, List[Tuple[int, int, float]]]:
    """copy class -> list of (ts, end, bw) of memory activities."""
    out: Dict[str, List[Tuple[int, int, float]]] = {}
    for r in rows:
        if r.stream != -1 and vocab.kernel_type(r.name) == vocab.MEMORY:
            out.setdefault(vocab.MEMCPY_CLASS[r.name], []).append(
                (r.ts, r.ts + (r.dur if r.dur > 0 else 1), float(r.args.get("memory bandwidth (GB/s)", 0.0))))
    return out


def close(a: float, b: float) -> bool:
    return abs(a - b) <= 1e-9 * max(1.0, abs(a), abs(b))


def check(case: Dict[str, Any]) -> CaseInfo:
    from hv.hta_io import load_analysis

    p = case["params"]
    classes: List[str] = []
    nontrivial = False
    with scratch_dir() as d:
        files = write_case(case, d)
        ta = load_analysis(files, d, mp=case.get("mp", False), prelude=case.get("prelude"))
        num = float if case.get("unrounded") else int  # quarter-microsecond stamps stay exact in doubles
        min_ts = num(ta.t.min_ts)
        req = p["ranks"]
        want_ranks = req if req else [0]
        q = hta_call("get_queue_length_time_series", lambda: ta.get_queue_length_time_series(ranks=req))
        bw = hta_call("get_memory_bw_time_series", lambda: ta.get_memory_bw_time_series(ranks=req))
        series_q: Dict[int, List[Tuple[int, int, int]]] = {}  # rank -> rows (unshifted ts, stream, value) in returned order
        series_b: Dict[int, List[Tuple[int, str, float]]] = {}
        for rd in case["ranks"]:
            rank = rd["rank"]
            if rank not in want_ranks:
                require(rank not in q and rank not in bw, "ranks:not_requested", f"rank {rank}")
                continue
            rows = complete_rows(rd["events"])
            by_id = {r.id: r for r in rows}
            # ---------------- queue length ----------------
            mq = model_queue(rows)
            lk_all = links(rows)
            if not mq:
                require(rank not in q, "queue:series_without_pairs", lambda: q[rank].to_string())
            else:
                require(rank in q, "queue:missing_series", f"rank {rank}")
                df = q[rank]
                require(sorted(set(int(s) for s in df["stream"])) == sorted(mq), "queue:streams",
                        lambda: f"{sorted(set(df['stream']))} vs {sorted(mq)}")
                series_q[rank] = []
                for stream, evs in mq.items():
                    sub = df[df["stream"] == stream]
                    ids = [int(i) for i in sub.index]
                    require(sorted(ids) == sorted(e[0] for e in evs), "queue:rows_are_linked_events",
                            lambda: f"stream {stream}: rows {sorted(ids)} vs events {sorted(e[0] for e in evs)}")
                    sign = {e[0]: e[2] for e in evs}
                    # "never negative" is claimed only when no activity of the stream starts before its launch call
                    early_on_stream = any(by_id[e[0]].ts < by_id[lk_all[e[0]]].ts for e in evs if e[2] < 0)
                    if early_on_stream:
                        classes.append("activity_before_its_launch")
                    prev_ts, val = None, 0
                    vals = []
                    for i, ts, ql in zip(ids, sub["ts"], sub["queue_length"]):
                        ts, ql = num(ts), int(ql)
                        require(ts + min_ts == by_id[i].ts, "queue:row_timestamp", lambda: f"event {i}: {ts}+{min_ts} vs {by_id[i].ts}")
                        require(prev_ts is None or ts >= prev_ts, "queue:time_order", lambda: f"stream {stream}: {list(sub['ts'])}")
                        val += sign[i]
                        require(ql == val, "queue:step_by_row", lambda: f"stream {stream} event {i}: value {ql}, expected {val}; rows\n{sub.to_string()}")
                        if not early_on_stream:
                            require(ql >= 0, "queue:never_negative", lambda: f"stream {stream}\n{sub.to_string()}")
                        elif ql < 0:
                            classes.append("negative_queue_length")
                        prev_ts = ts
                        vals.append((ts, ql))
                        series_q[rank].append((ts + min_ts, stream, ql))
                    # value after the last row of each instant
                    last_at: Dict[int, int] = {}
                    for ts, ql in vals:
                        last_at[ts] = ql
                    for ts, ql in last_at.items():
                        t_abs = ts + min_ts
                        want = sum(1 for e in evs if e[2] > 0 and e[1] <= t_abs) - sum(1 for e in evs if e[2] < 0 and e[1] <= t_abs)
                        require(ql == want, "queue:value_at_instant", lambda: f"stream {stream} t={t_abs}: {ql} vs {want}")
                    require(vals[-1][1] == 0, "queue:ends_at_zero", lambda: f"stream {stream}: {vals}")
                    tss = [e[1] for e in evs]
                    if any(a[2] > 0 and b[2] < 0 and a[1] == b[1] for a in evs for b in evs):
                        classes.append("launch_and_start_same_instant")
                        if len(mq) >= 2:
                            nontrivial = True
                    if len(tss) != len(set(tss)):
                        classes.append("shared_instant")
                if len(mq) >= 2:
                    classes.append("multi_stream")
            # ---------------- memory bandwidth ----------------
            mb = model_bw(rows)
            if not mb:
                require(rank not in bw, "bw:series_without_copies", lambda: bw[rank].to_string())
            else:
                require(rank in bw, "bw:missing_series", f"rank {rank}")
                df = bw[rank]
                require(sorted(set(df["name"])) == sorted(mb), "bw:copy_types", lambda: f"{sorted(set(df['name']))} vs {sorted(mb)}")
                series_b[rank] = []
                for cls, copies in mb.items():
                    sub = df[df["name"] == cls]
                    want_ts = sorted([c[0] - min_ts for c in copies] + [c[1] - min_ts for c in copies])
                    require([num(x) for x in sub["ts"]] == want_ts, "bw:rows",
                            lambda: f"{cls}: ts {list(sub['ts'])} vs {want_ts}")
                    last_at: Dict[int, float] = {}
                    for ts, v in zip(sub["ts"], sub["memory_bw_gbps"]):
                        require(float(v) >= -1e-9, "bw:non_negative", lambda: f"{cls}\n{sub.to_string()}")
                        last_at[num(ts)] = float(v)
                        series_b[rank].append((num(ts) + min_ts, cls, float(v)))
                    for ts, v in last_at.items():
                        t_abs = ts + min_ts
                        want = math.fsum(c[2] for c in copies if c[0] <= t_abs < c[1])
                        require(close(v, want), "bw:value_at_instant", lambda: f"{cls} t={t_abs}: {v} vs {want}; copies {copies}")
                    if any(c[1] - c[0] == 1 and any(r.dur == 0 for r in rows if r.stream != -1 and vocab.kernel_type(r.name) == vocab.MEMORY)
                           for c in copies):
                        classes.append("zero_length_copy")
                    if any(a is not b and a[0] < b[1] and b[0] < a[1] for a in copies for b in copies):
                        classes.append("overlapping_copies")
                    named = [(r.ts, r.ts + (r.dur if r.dur > 0 else 1), r.name) for r in rows if r.stream != -1 and vocab.kernel_type(r.name) == vocab.MEMORY
                             and vocab.MEMCPY_CLASS[r.name] == cls]
                    if any(a[2] != b[2] and a[0] < b[1] and b[0] < a[1] for a in named for b in named):
                        classes.append("overlapping_copies_same_type_different_names")
                if len(mb) >= 2:
                    classes.append("multi_copy_type")
        # ---------------- counter file ----------------
        from hta.trace_analysis import TimeSeriesTypes

        flag = {"both": None, "queue": TimeSeriesTypes.QUEUE_LENGTH, "bw": TimeSeriesTypes.MEMCPY_BANDWIDTH}[p["series"]]
        hta_call("generate_trace_with_counters", lambda: ta.generate_trace_with_counters(time_series=flag, ranks=req,
                                                                                          output_suffix=p["suffix"]))
        suffix = p["suffix"] or "_with_counters"
        for rd in case["ranks"]:
            rank = rd["rank"]
            out = files[rank].replace(".json", f"{suffix}.json")
            exp_q = series_q.get(rank, []) if p["series"] in ("both", "queue") else []
            exp_b = series_b.get(rank, []) if p["series"] in ("both", "bw") else []
            has_series = (rank in series_q and p["series"] in ("both", "queue")) or (rank in series_b and p["series"] in ("both", "bw"))
            if rank not in want_ranks or not has_series:
                require(not os.path.exists(out), "file:unexpected_output", out)
                continue
            require(os.path.exists(out), "file:missing_output", out)
            data = read_any(out)
            n = len(rd["events"])
            added = data["traceEvents"][n:]
            require(all(e.get("ph") == "C" for e in added), "file:only_counters_appended", lambda: str(added[:3]))
            got_q = [(num(e["ts"]), int(e["id"]), int(e["args"]["Queue Length"])) for e in added if e["name"] == "Queue Length"]
            got_b = [(num(e["ts"]), e["name"], float(e["args"]["Memcpy BW"])) for e in added if e["name"] != "Queue Length"]
            # the order across streams / copy types is not prescribed: compare per series, in order
            for key in sorted({x[1] for x in got_q} | {x[1] for x in exp_q}):
                gq, eq = [x for x in got_q if x[1] == key], [x for x in exp_q if x[1] == key]
                require(gq == eq, "file:queue_counters", lambda: f"rank {rank} stream {key}: file {gq} vs series {eq}")
            for key in sorted({x[1] for x in got_b} | {x[1] for x in exp_b}):
                gb, eb = [x for x in got_b if x[1] == key], [x for x in exp_b if x[1] == key]
                require(len(gb) == len(eb) and all(a[0] == b[0] and close(a[2], b[2]) for a, b in zip(gb, eb)),
                        "file:bw_counters", lambda: f"rank {rank} {key}: file {gb} vs series {eb}")
            classes.append("counter_file")
    if len(want_ranks) > 1:
        classes.append("multi_rank_request")
    return CaseInfo(nontrivial=nontrivial, classes=classes)


@st.composite
def c14_case(draw):
    o = Opts(unrounded=True, steps=[0, 1], w_launch=8, w_sync=1, w_op=3, max_top=5, streams=3, second_thread=False, memcpy_weight=6, early_kernels=True,
             kdurs=[1, 2, 4, 7, 12, 20], memcpy_names=[n for n in vocab.MEMCPY_KERNELS if "HtoD" in n] + vocab.MEMCPY_KERNELS[:1])
    case = draw(sim_case(o, max_ranks=2))
    all_ranks = [r["rank"] for r in case["ranks"]]
    mode = draw(st.sampled_from(["none", "empty", "subset", "all", "all"] if 0 in all_ranks else ["all", "subset", "all"]))  # None / [] mean rank 0
    ranks = None if mode == "none" else [] if mode == "empty" else list(all_ranks) if mode == "all" else \
        list(draw(st.permutations(all_ranks)))[:1]
    case["params"] = {"ranks": ranks, "series": draw(st.sampled_from(["both", "both", "queue", "bw"])),
                      "suffix": draw(st.sampled_from(["_with_counters", "", "_c"]))}
    case["fmt"] = draw(st.sampled_from(["json", "gz"]))
    return case


def view(case):
    return {"params": case["params"], "ranks": [
        {"rank": r["rank"], "rows[id,name,ts,dur,stream,corr]": [[x.id, x.name, x.ts, x.dur, x.stream, x.correlation]
                                                                for x in complete_rows(r["events"])]} for r in case["ranks"][:1]]}


def campaigns(tier: str) -> List[Campaign]:
    return [Campaign("counters", c14_case(), check, quick=400, thorough=20000, quick_shards=8,
                     required_classes={"unrounded_fractional_times": 0.05, "launch_and_start_same_instant": 0.15, "multi_stream": 0.18, "zero_length_copy": 0.03,
                                       "counter_file": 0.5, "shared_instant": 0.3, "multi_copy_type": 0.05, "negative_queue_length": 0.05},
                     sample_view=view)]
