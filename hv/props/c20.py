"""C20 Trace files written by the tool preserve every source event."""
from __future__ import annotations

import copy
import os
from collections import Counter
from typing import Any, Dict, List

from hypothesis import strategies as st

from hv.core import Campaign, CaseInfo, hta_call, require
from hv.gen.files import clean_event, file_dict, read_any, scratch_dir, world_size, write_case
from hv.gen.kineto_sim import Opts, sim_case
from hv.props.cp_common import CPRun, cp_case, edge_objects, env_flag, view

ID = "C20"
RULE = ("Three campaigns. counters: G-sim files (.json/.json.gz, with metadata/flow/instant/Trace entries) through "
        "generate_trace_with_counters (flags, suffix, ranks). overlay: graphs of the C08 family through "
        "overlay_critical_path_analysis x only_show_critical_events x show_all_edges x CRITICAL_PATH_SHOW_ZERO_WEIGHT_LAUNCH_EDGE, as a "
        "sequence of 1-3 writes (overlays and counter files) from ONE TraceAnalysis object. "
        "file_io: write_trace/read_trace round trips in both formats, update_trace_rank with ranks 0..10^6 (files with and without "
        "distributedInfo) and create_rank_to_trace_dict. Oracle: the first n output events equal the source list element-wise "
        "(overlay: after removing the 'critical' marker), appended events are only counters / flow events, markers exactly on "
        "critical_path_events_set, one s+f pair per drawn edge on the pid/tid of the edge's two events with the edge type as "
        "category, filtered output keeps critical events + annotations + non-complete entries in order; rank update changes only "
        "distributedInfo.rank; rank discovery maps every file to its metadata rank. Non-trivial: source has >= 3 non-complete "
        "entries and the writer appended >= 1 event (file_io: rank changed and file re-read). Distinct = distinct case JSON.")
ASSUMPTIONS = [
    "files are read back by sniffing the gzip magic: the writers gzip regardless of the file name (noted, not asserted)",
    "complete events carry an args object (Kineto's layout); overlay marks events through args",
    "rank discovery reads the first '\"rank\": N' of the file; generated event args never contain a key named rank",
]


# ---- counters ------------------------------------------------------------------------------------
def check_counters(case: Dict[str, Any]) -> CaseInfo:
    from hv.hta_io import load_analysis
    from hta.trace_analysis import TimeSeriesTypes

    p = case["params"]
    classes: List[str] = []
    nontrivial = False
    with scratch_dir() as d:
        files = write_case(case, d)
        before = {r: open(f, "rb").read() for r, f in files.items()}
        ta = load_analysis(files, d, mp=False)
        flag = {"both": None, "queue": TimeSeriesTypes.QUEUE_LENGTH, "bw": TimeSeriesTypes.MEMCPY_BANDWIDTH}[p["series"]]
        hta_call("generate_trace_with_counters", lambda: ta.generate_trace_with_counters(time_series=flag, ranks=p["ranks"],
                                                                                          output_suffix=p["suffix"]))
        suffix = p["suffix"] or "_with_counters"
        world = world_size(case)
        for rd in case["ranks"]:
            src_file = files[rd["rank"]]
            require(open(src_file, "rb").read() == before[rd["rank"]], "counters:source_file_untouched", src_file)
            out = src_file.replace(".json", f"{suffix}.json")
            if not os.path.exists(out):
                classes.append("no_output_for_rank")
                continue
            data = read_any(out)
            src = file_dict(rd, world)
            n = len(src["traceEvents"])
            require(len(data["traceEvents"]) >= n, "counters:events_dropped", lambda: f"{len(data['traceEvents'])} < {n}")
            for i, (a, b) in enumerate(zip(src["traceEvents"], data["traceEvents"][:n])):
                require(a == b, "counters:source_event_changed", lambda: f"rank {rd['rank']} event {i}: {a} vs {b}")
            added = data["traceEvents"][n:]
            require(all(e.get("ph") == "C" for e in added), "counters:only_counter_events_appended", lambda: str(added[:3]))
            for k in src:
                if k != "traceEvents":
                    require(data.get(k) == src[k], "counters:metadata_preserved", lambda: f"{k}: {data.get(k)} vs {src[k]}")
            noncomplete = sum(1 for e in src["traceEvents"] if e.get("ph") != "X")
            classes.append("counter_file_written")
            if noncomplete >= 3 and added:
                nontrivial = True
            if noncomplete:
                classes.append("has_noncomplete_entries")
    return CaseInfo(nontrivial=nontrivial, classes=classes)


@st.composite
def counters_case(draw):
    o = Opts(steps=[0, 1, 2], w_launch=7, w_sync=2, max_top=4, streams=2)
    case = draw(sim_case(o, max_ranks=2))
    all_ranks = [r["rank"] for r in case["ranks"]]
    mode = draw(st.sampled_from(["all", "none", "one"] if 0 in all_ranks else ["all", "one"]))  # None means rank 0
    ranks = None if mode == "none" else list(all_ranks) if mode == "all" else [draw(st.sampled_from(all_ranks))]
    case["params"] = {"ranks": ranks, "series": draw(st.sampled_from(["both", "queue", "bw"])),
                      "suffix": draw(st.sampled_from(["_with_counters", "", "_x"]))}
    return case


# ---- overlay ----------------------------------------------------------------------------------
def _validate_overlay(run, g, src, p, out, classes) -> int:
    src_events = src["traceEvents"]
    require(isinstance(out, str) and os.path.exists(out), "overlay:file_written", repr(out))
    require(os.path.basename(out) == "overlaid_critical_path_" + os.path.basename(run.files[run.rank]), "overlay:file_name", out)
    data = read_any(out)
    nodes = g.node_list
    # the critical path's events and edges, derived from the reported node sequence (not from the graph's own sets)
    path = [int(n) for n in g.critical_path_nodes]
    crit_events = {int(nodes[n].ev_idx) for n in path}
    crit_edges = [g.edges[u, v]["object"] for u, v in zip(path, path[1:])]
    crit_edge_set = set(crit_edges)
    all_edges = [e for _, _, e, _ in edge_objects(g)]
    if p["all_edges"] and not p["only_critical"]:
        drawn = [e for e in all_edges if p["show_zero"] or not (e.type.name == "KERNEL_LAUNCH_DELAY" and e.weight == 0)]
    else:
        drawn = list(crit_edges)
    events = data["traceEvents"]
    flows = [e for e in events if e.get("ph") in ("s", "f") and e.get("name") == "critical_path"]
    body = events[: len(events) - len(flows)]
    require(events[len(body):] == flows, "overlay:flow_events_are_appended_last", lambda: str(events[-3:]))

    def strip(e):
        e = copy.deepcopy(e)
        if isinstance(e.get("args"), dict):
            e["args"].pop("critical", None)
        return e

    if not p["only_critical"]:
        require(len(body) == len(src_events), "overlay:event_count", lambda: f"{len(body)} vs {len(src_events)}")
        got_marked = set()
        for i, (a, b) in enumerate(zip(src_events, body)):
            require(strip(b) == a, "overlay:source_event_changed", lambda: f"event {i}: {a} vs {b}")
            if isinstance(b.get("args"), dict) and b["args"].get("critical") == 1:
                got_marked.add(i)
        require(got_marked == crit_events, "overlay:markers_exactly_on_critical_events",
                lambda: f"{sorted(got_marked)} vs {sorted(crit_events)}")
        classes.append("all_events_kept")
    else:
        want_body = []
        for i, e in enumerate(src_events):
            if e.get("ph") != "X" or e.get("cat", "") in ("user_annotation", "python_function") or i in crit_events:
                want_body.append((i, e))
        require(len(body) == len(want_body), "overlay:filtered_event_count", lambda: f"{len(body)} vs {len(want_body)}")
        for (i, a), b in zip(want_body, body):
            require(strip(b) == a, "overlay:filtered_event_changed_or_reordered", lambda: f"event {i}: {a} vs {b}")
            is_marked = isinstance(b.get("args"), dict) and b["args"].get("critical") == 1
            require(is_marked == (i in crit_events), "overlay:markers_exactly_on_critical_events", lambda: f"event {i}")
        classes.append("only_critical_events")
    require(len(flows) == 2 * len(drawn), "overlay:one_flow_pair_per_drawn_edge", lambda: f"{len(flows)} flow events, {len(drawn)} edges")
    by_id: Dict[Any, List[Dict[str, Any]]] = {}
    for f in flows:
        by_id.setdefault(f["id"], []).append(f)
    want_pairs = Counter()
    for e in drawn:
        a, b = src_events[int(nodes[e.begin].ev_idx)], src_events[int(nodes[e.end].ev_idx)]
        want_pairs[(a["pid"], a["tid"], b["pid"], b["tid"], e.type.value, int(e.weight), e in crit_edge_set)] += 1
    got_pairs = Counter()
    for fid, pair in by_id.items():
        require(len(pair) == 2 and {x["ph"] for x in pair} == {"s", "f"}, "overlay:flow_pair_shape", lambda: str(pair))
        s_ = next(x for x in pair if x["ph"] == "s")
        f_ = next(x for x in pair if x["ph"] == "f")
        # (the order of the two stamps is not part of the property: with sub-microsecond source stamps HTA truncates each end of
        # the arrow separately, and a zero-weight edge can then point one microsecond backwards in the written file)
        require(s_["cat"] == f_["cat"], "overlay:flow_pair_consistent", lambda: str(pair))
        got_pairs[(s_["pid"], s_["tid"], f_["pid"], f_["tid"], s_["cat"], int(s_["args"]["weight"]), bool(s_["args"]["critical"]))] += 1
    require(got_pairs == want_pairs, "overlay:flows_on_threads_of_edge_events",
            lambda: f"missing {list((want_pairs - got_pairs).elements())[:4]} extra {list((got_pairs - want_pairs).elements())[:4]}")
    for k in src:
        if k != "traceEvents":
            require(data.get(k) == src[k], "overlay:metadata_preserved", lambda: f"{k}")
    if p["all_edges"] and not p["only_critical"]:
        classes.append("all_edges_drawn")
    if p["show_zero"]:
        classes.append("show_zero_weight_launch_edges")
    if any(e.type.name == "KERNEL_LAUNCH_DELAY" and e.weight == 0 for e in all_edges):
        classes.append("has_zero_weight_launch_edge")
    return len(flows)


def _validate_counters_file(run, src, p, classes) -> int:
    suffix = p["suffix"] or "_with_counters"
    out = run.files[run.rank].replace(".json", f"{suffix}.json")
    if not os.path.exists(out):
        classes.append("no_counter_series_for_rank")
        return 0
    data = read_any(out)
    n = len(src["traceEvents"])
    require(len(data["traceEvents"]) >= n, "counters:events_dropped", lambda: f"{len(data['traceEvents'])} < {n}")
    for i, (a, b) in enumerate(zip(src["traceEvents"], data["traceEvents"][:n])):
        require(a == b, "counters:source_event_changed", lambda: f"event {i}: {a} vs {b}")
    added = data["traceEvents"][n:]
    require(all(e.get("ph") == "C" for e in added), "counters:only_counter_events_appended", lambda: str(added[:3]))
    os.remove(out)
    return len(added)


def check_overlay(case: Dict[str, Any]) -> CaseInfo:
    """A sequence of 1-3 writes from ONE TraceAnalysis object: every written file must preserve the source."""
    from hta.trace_analysis import TimeSeriesTypes

    ops = case["overlay"] if isinstance(case["overlay"], list) else [dict(case["overlay"], kind="overlay")]
    classes: List[str] = []
    appended = 0
    with scratch_dir() as d:
        run = CPRun(case, d)
        g = run.graph
        src = file_dict(next(r for r in case["ranks"] if r["rank"] == run.rank), world_size(case))
        outdir = os.path.join(d, "overlay_out")
        for n, p in enumerate(ops):
            if p["kind"] == "overlay":
                with env_flag("CRITICAL_PATH_SHOW_ZERO_WEIGHT_LAUNCH_EDGE", p["show_zero"]):
                    out = hta_call("overlay_critical_path_analysis", lambda: run.ta.overlay_critical_path_analysis(
                        run.rank, g, outdir, only_show_critical_events=p["only_critical"], show_all_edges=p["all_edges"]))
                appended += _validate_overlay(run, g, src, p, out, classes)
            else:
                flag = {"both": None, "queue": TimeSeriesTypes.QUEUE_LENGTH, "bw": TimeSeriesTypes.MEMCPY_BANDWIDTH}[p["series"]]
                hta_call("generate_trace_with_counters", lambda: run.ta.generate_trace_with_counters(
                    time_series=flag, ranks=[run.rank], output_suffix=p["suffix"]))
                appended += _validate_counters_file(run, src, p, classes)
            if n > 0:
                classes.append("second_write_from_same_object")
        noncomplete = sum(1 for e in src["traceEvents"] if e.get("ph") != "X")
        nontrivial = noncomplete >= 3 and appended > 0
    return CaseInfo(nontrivial=nontrivial, classes=classes)


@st.composite
def overlay_case(draw):
    case = draw(cp_case())
    ops = []
    for _ in range(draw(st.sampled_from([1, 2, 2, 3]))):
        if draw(st.sampled_from(["overlay", "overlay", "counters"])) == "overlay":
            ops.append({"kind": "overlay", "only_critical": draw(st.sampled_from([False, False, True])),
                        "all_edges": draw(st.sampled_from([True, False])), "show_zero": draw(st.sampled_from([False, True]))})
        else:
            ops.append({"kind": "counters", "series": draw(st.sampled_from(["both", "queue", "bw"])),
                        "suffix": draw(st.sampled_from(["_with_counters", "_x"]))})
    if not any(o["kind"] == "overlay" for o in ops):
        ops.append({"kind": "overlay", "only_critical": False, "all_edges": True, "show_zero": False})
    case["overlay"] = ops
    return case


# ---- file io -----------------------------------------------------------------------------------
def check_file_io(case: Dict[str, Any]) -> CaseInfo:
    from hta.common import trace_file as tf

    classes: List[str] = []
    with scratch_dir() as d:
        world = world_size(case)
        paths = {}
        expect_rank = {}
        for i, rd in enumerate(case["ranks"]):
            data = file_dict(rd, world)
            if case["drop_dist_info"][i % len(case["drop_dist_info"])]:
                data.pop("distributedInfo")
                classes.append("no_distributed_info")
            fmt = case["fmts"][i % len(case["fmts"])]
            path = os.path.join(d, "sub", f"t{i}.json" + (".gz" if fmt == "gz" else ""))
            hta_call("write_trace", lambda: tf.write_trace(data, path))
            back = hta_call("read_trace", lambda: tf.read_trace(path))
            require(back == data, "file_io:write_read_round_trip", lambda: f"{path}")
            require(list(back.keys()) == list(data.keys()) and back["traceEvents"] == data["traceEvents"], "file_io:order_preserved", path)
            new_rank = case["new_ranks"][i % len(case["new_ranks"])]
            if new_rank is not None:
                hta_call("update_trace_rank", lambda: tf.update_trace_rank(path, new_rank))
                after = read_any(path)
                want = copy.deepcopy(data)
                want.setdefault("distributedInfo", {})["rank"] = new_rank
                require(after == want, "file_io:rank_update_changes_only_rank", lambda: f"{path}: {str(after)[:200]}")
                require(after["traceEvents"] == data["traceEvents"], "file_io:events_preserved_by_rank_update", path)
                expect_rank[path] = new_rank
                classes.append("rank_updated")
                if new_rank >= 1000:
                    classes.append("large_rank")
            else:
                expect_rank[path] = data.get("distributedInfo", {}).get("rank", 0)
            paths[i] = path
        # rank discovery (unique ranks only: a duplicate rank is documented to be overwritten)
        if len(set(expect_rank.values())) == len(expect_rank):
            ok, mapping = hta_call("create_rank_to_trace_dict", lambda: tf.create_rank_to_trace_dict(list(expect_rank)))
            require(ok is True, "discovery:ok", str(ok))
            want_map = {r: p_ for p_, r in expect_rank.items()}
            require(mapping == want_map, "discovery:file_to_metadata_rank", lambda: f"{mapping} vs {want_map}")
            ok2, mapping2 = hta_call("create_rank_to_trace_dict_from_dir", lambda: tf.create_rank_to_trace_dict_from_dir(os.path.join(d, "sub")))
            require(ok2 is True and mapping2 == want_map, "discovery:from_dir", lambda: f"{mapping2} vs {want_map}")
            classes.append("discovery")
        nt = any(v is not None for v in case["new_ranks"][: len(case["ranks"])])
    return CaseInfo(nontrivial=nt, classes=classes)


@st.composite
def file_io_case(draw):
    o = Opts(steps=[0, 1, 2], max_top=4, w_launch=5)
    case = draw(sim_case(o, max_ranks=3))
    n = len(case["ranks"])
    case["fmts"] = [draw(st.sampled_from(["json", "gz"])) for _ in range(n)]
    case["drop_dist_info"] = [draw(st.sampled_from([False, False, True])) for _ in range(n)]
    ranks = draw(st.lists(st.one_of(st.none(), st.sampled_from([0, 1, 2, 7, 8, 63, 1000, 10**6]), st.integers(0, 10**6)),
                          min_size=n, max_size=n))
    case["new_ranks"] = ranks
    return case


def campaigns(tier: str) -> List[Campaign]:
    return [
        Campaign("counters", counters_case(), check_counters, quick=160, thorough=6000, quick_shards=4,
                 required_classes={"counter_file_written": 0.4, "has_noncomplete_entries": 0.3},
                 sample_view=lambda c: {"params": c["params"], "n_events": [len(r["events"]) for r in c["ranks"]]}),
        Campaign("overlay", overlay_case(), check_overlay, quick=640, thorough=9600, quick_shards=8,
                 required_classes={"all_events_kept": 0.3, "only_critical_events": 0.1, "all_edges_drawn": 0.15,
                                   "show_zero_weight_launch_edges": 0.2, "second_write_from_same_object": 0.3},
                 sample_view=lambda c: {**view(c), "overlay": c["overlay"]}),
        Campaign("file_io", file_io_case(), check_file_io, quick=240, thorough=8000, quick_shards=4,
                 required_classes={"rank_updated": 0.33, "discovery": 0.3, "no_distributed_info": 0.15},
                 sample_view=lambda c: {"fmts": c["fmts"], "new_ranks": c["new_ranks"], "drop_dist_info": c["drop_dist_info"],
                                        "n_events": [len(r["events"]) for r in c["ranks"]]}),
    ]
