#!/bin/bash
# Run every registered check (quick tier by default) against /repo and refresh evidence/. usage: tools/run_all.sh [quick|thorough] [seed]
cd "$(dirname "$0")/.."
tier=${1:-quick}; seed=${2:-1}; rc=0
for i in 01 02 03 04 05 06 07 08 09 10 11 12 13 14 15 16 17 18 19 20; do
  out=$(PYTHONHASHSEED=0 VERIF_SEED=$seed /venv/bin/python -m hv.run C$i --tier $tier 2>&1 | grep -E "^(OK|VIOLATION|KNOWN-FINDING|HARNESS-ERROR)" | head -3)
  echo "$out"
  echo "$out" | grep -q "^OK" || rc=1
done
exit $rc
