"""C10 Critical-path breakdown conserves the path weight and attributes it correctly."""
from __future__ import annotations

import math
from collections import Counter
from typing import Any, Dict, List

from hv.core import Campaign, CaseInfo, hta_call, require
from hv.gen import vocab
from hv.gen.files import scratch_dir
from hv.props.cp_common import CPRun, cp_case, edge_objects, view

ID = "C10"
RULE = ("Successful analyses of the C08 case family. Oracle: breakdown has one row per critical edge (multiset of (type, duration) "
        "equal); durations add up to the path weight; span edges are attributed to an event that exists in the analysed frame, "
        "sits on the thread/stream of both endpoint events and whose [ts, end] covers [src.ts, dst.ts]; kernel-to-kernel edges "
        "to the preceding kernel; bound_by recomputed from the attributed event (host thread -> cpu_bound; name tagged "
        "communication -> gpu_communication_bound; other device -> gpu_compute_bound; delay edges -> overhead class; "
        "dependency/sync -> empty); summary() == per-class share of the total, adding up to 100. Non-trivial: the critical path "
        "shows >= 3 of the 4 attribution cases (start->start, start->end, end->end, end->start). Distinct = distinct case JSON.")
ASSUMPTIONS = ["same input domain as C08", "kernel class of a name is its tag in hv/gen/vocab.py", "summary tolerance 1e-6"]

BOUND = {"KERNEL_KERNEL_DELAY": "gpu_kernel_kernel_overhead", "KERNEL_LAUNCH_DELAY": "gpu_kernel_launch_overhead",
         "DEPENDENCY": "", "SYNC_DEPENDENCY": ""}


def check(case: Dict[str, Any]) -> CaseInfo:
    classes: List[str] = []
    with scratch_dir() as d:
        run = CPRun(case, d)
        g, w, shift = run.graph, run.window, run.min_ts
        nodes = g.node_list
        bd = hta_call("get_critical_path_breakdown", lambda: g.get_critical_path_breakdown())
        require(bd is not None, "breakdown:returned", "None")
        path = [int(n) for n in g.critical_path_nodes]
        # the critical edges = the edges between consecutive path nodes (derived here, not read from the graph's own set)
        crit = [g.edges[u, v]["object"] for u, v in zip(path, path[1:])]
        wmap = {(u, v): float(wt) for u, v, _, wt in edge_objects(g)}
        path_weight = sum(wmap[(u, v)] for u, v in zip(path, path[1:]))
        require(len(bd) == len(crit), "breakdown:one_row_per_critical_edge", lambda: f"{len(bd)} rows vs {len(crit)} edges")
        got_ms = Counter((r["type"], float(r["duration"])) for _, r in bd.iterrows())
        want_ms = Counter((e.type.value, float(e.weight)) for e in crit)
        require(got_ms == want_ms, "breakdown:rows_match_edges", lambda: f"{got_ms} vs {want_ms}")
        require(abs(float(bd["duration"].sum()) - path_weight) < 1e-9, "breakdown:durations_add_up_to_path_weight",
                lambda: f"{bd['duration'].sum()} vs {path_weight}")
        # per edge attribution, via the public lookup and the breakdown rows
        rows_by_key: Dict[Any, List[Any]] = {}
        for _, r in bd.iterrows():
            rows_by_key.setdefault((r["type"], float(r["duration"]), None if _isnan(r["event_idx"]) else int(r["event_idx"])), []).append(r)
        cases = set()
        per_class: Dict[str, float] = {}
        for e in crit:
            src, dst = nodes[e.begin], nodes[e.end]
            a, b = w.analysed[int(src.ev_idx)], w.analysed[int(dst.ev_idx)]
            t = e.type.name
            att = g.get_event_attribution_for_edge(e)
            desc = lambda: (f"{t} {a.id}:{a.name}({'S' if src.is_start else 'E'}@{src.ts}) -> {b.id}:{b.name}"  # noqa: E731
                            f"({'S' if dst.is_start else 'E'}@{dst.ts}) attributed to {att}")
            if t in ("OPERATOR_KERNEL", "KERNEL_KERNEL_DELAY"):
                require(att is not None and int(att) in w.clipped, "attribution:event_exists_in_analysed_frame", desc)
                ev = w.clipped[int(att)]
                if t == "KERNEL_KERNEL_DELAY":
                    require(ev.id == a.id, "attribution:kernel_kernel_to_preceding_kernel", desc)
                    want_bound = BOUND[t]
                else:
                    same = (ev.pid, ev.tid) == (a.pid, a.tid) == (b.pid, b.tid)
                    require(same, "attribution:same_thread_or_stream", lambda: desc() + f" ev on {(ev.pid, ev.tid)}")
                    require(ev.ts - shift <= src.ts and dst.ts <= ev.end - shift, "attribution:event_covers_edge",
                            lambda: desc() + f" ev span [{ev.ts - shift},{ev.end - shift}]")
                    cases.add(("S" if src.is_start else "E") + ("S" if dst.is_start else "E"))
                    if ev.stream < 0:
                        want_bound = "cpu_bound"
                    elif vocab.kernel_type(ev.name) == vocab.COMMUNICATION:
                        want_bound = "gpu_communication_bound"
                    else:
                        want_bound = "gpu_compute_bound"
                key = (e.type.value, float(e.weight), int(att))
            else:
                require(att is None, "attribution:none_for_dependency_and_delay", desc)
                want_bound = BOUND[t]
                key = (e.type.value, float(e.weight), None)
            cand = rows_by_key.get(key, [])
            require(len(cand) > 0, "breakdown:row_for_edge", lambda: desc() + f" no row with {key}")
            r = cand.pop()
            require(r["bound_by"] == want_bound, "breakdown:bound_by", lambda: desc() + f": {r['bound_by']!r} expected {want_bound!r}")
            if key[2] is not None:
                ev = w.clipped[key[2]]
                require(int(r["stream"]) == ev.stream and int(r["pid"]) == int(ev.pid) and int(r["tid"]) == int(ev.tid),
                        "breakdown:event_columns", lambda: desc() + f" row {r.to_dict()}")
            per_class[want_bound] = per_class.get(want_bound, 0.0) + float(e.weight)
            classes.append("bound:" + (want_bound or "none"))
        if path_weight > 0:
            import contextlib
            import io

            with contextlib.redirect_stdout(io.StringIO()):
                summ = hta_call("summary", lambda: g.summary())
            got = {str(k): float(v) for k, v in summ.items()}
            for k, v in per_class.items():
                wantv = 100.0 * v / path_weight
                require(abs(got.get(k, 0.0) - wantv) <= 1e-6, "summary:share", lambda: f"{k}: {got.get(k)} vs {wantv}; {got}")
            require(set(got) <= set(per_class), "summary:classes", lambda: f"{sorted(got)} vs {sorted(per_class)}")
            require(abs(sum(got.values()) - 100.0) <= 1e-6, "summary:adds_up_to_100", lambda: str(got))
        for c in cases:
            classes.append("case:" + c)
    return CaseInfo(nontrivial=len(cases) >= 3, classes=classes)


def _isnan(x) -> bool:
    try:
        return x is None or math.isnan(float(x))
    except (TypeError, ValueError):
        return False


def campaigns(tier: str) -> List[Campaign]:
    return [Campaign("breakdown", cp_case(), check, quick=480, thorough=11200, quick_shards=8,
                     required_classes={"case:SS": 0.1, "case:SE": 0.5, "case:EE": 0.1, "case:ES": 0.06, "bound:cpu_bound": 0.5,
                                       "bound:gpu_compute_bound": 0.1, "bound:gpu_communication_bound": 0.03,
                                       "bound:gpu_kernel_launch_overhead": 0.1},
                     sample_view=view)]
