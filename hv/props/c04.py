"""C04 Temporal breakdown is an exact partition of the GPU activity span."""
from __future__ import annotations

import math
from typing import Any, Dict, List

from hv.core import Campaign, CaseInfo, Violation, hta_call, require
from hv.gen import vocab
from hv.gen.files import scratch_dir, write_case
from hv.gen.intervals import device_intervals, interval_case, tie_classes
from hv.model.intervals import span, union_measure

ID = "C04"
RULE = ("G-iv: 1-3 ranks (ids 0..n-1, or a subset of a larger job such as {1,2,3} / {3,0,7} in any order), 1-14 device activities on 1-4 streams with anchor-based integer coordinates, written as "
        ".json/.json.gz and loaded through TraceAnalysis; oracle = sweep-line union measures over the raw file "
        "entries. Non-trivial: some rank has >= 3 activities of >= 2 kernel types and at least one tie "
        "(touching, nested, identical, shared start/end or zero length). Distinct = distinct canonical case JSON.")
ASSUMPTIONS = [
    "only the JSON parser backend (ijson is not installed)",
    "device activities carry positive stream ids; first file entry is a host operator",
    "kernel-type class of a name is its tag in hv/gen/vocab.py (not re-derived with HTA's regexes)",
    "fewer than two ProfilerStep annotations, so loading trims nothing (trimming is C12)",
]

PCT_TOL = 0.005 + 1e-9


def expected_rank(events: List[Dict[str, Any]]) -> Dict[str, int]:
    ivs = device_intervals(events)
    lo, hi = span([(s, e) for _, _, s, e in ivs])
    kernel_time = hi - lo
    busy = union_measure([(s, e) for _, _, s, e in ivs])
    compute = union_measure([(s, e) for n, _, s, e in ivs if vocab.kernel_type(n) == vocab.COMPUTATION])
    idle = kernel_time - busy
    return {"idle_time(us)": idle, "compute_time(us)": compute, "non_compute_time(us)": kernel_time - compute - idle,
            "kernel_time(us)": kernel_time}


def check(case: Dict[str, Any]) -> CaseInfo:
    from hv.hta_io import load_analysis

    with scratch_dir() as d:
        files = write_case(case, d)
        ta = load_analysis(files, d, mp=case.get("mp", False), prelude=case.get("prelude"))
        df = hta_call("get_temporal_breakdown", lambda: ta.get_temporal_breakdown(visualize=False))
    require(sorted(int(r) for r in df["rank"]) == sorted(files), "rows:one_per_rank", lambda: f"ranks {list(df['rank'])}")
    classes: List[str] = []
    nontrivial = False
    for rd in case["ranks"]:
        exp = expected_rank(rd["events"])
        row = df[df["rank"] == rd["rank"]].iloc[0]
        for k, v in exp.items():
            require(v >= 0, "model:nonneg", f"{k}={v}")
            got = row[k]
            require(float(got) == float(v), f"value:{k}",
                    lambda: f"rank {rd['rank']}: expected {exp}, got {row.to_dict()}")
        require(float(row["idle_time(us)"]) + float(row["compute_time(us)"]) + float(row["non_compute_time(us)"]) == float(row["kernel_time(us)"]),
                "partition:sum", lambda: str(row.to_dict()))
        kt = exp["kernel_time(us)"]
        if kt > 0:
            for part in ("idle_time", "compute_time", "non_compute_time"):
                want = 100.0 * exp[part + "(us)"] / kt
                got = float(row[part + "_pctg"])
                require(not math.isnan(got) and abs(got - want) <= PCT_TOL, f"pct:{part}",
                        lambda: f"rank {rd['rank']}: want {want}, got {got}")
        else:
            classes.append("zero_span")
        ivs = device_intervals(rd["events"])
        ties = tie_classes(ivs)
        classes += ties
        types = {vocab.kernel_type(n) for n, _, _, _ in ivs}
        if len(ivs) >= 3 and len(types) >= 2 and ties:
            nontrivial = True
        if len({s for _, s, _, _ in ivs}) >= 2:
            classes.append("multi_stream")
    if len(case["ranks"]) >= 2:
        classes.append("multi_rank")
    if case.get("mp"):
        classes.append("mp_load")
    if sorted(files) != list(range(len(files))):
        classes.append("rank_ids_not_0..n-1")
    return CaseInfo(nontrivial=nontrivial, classes=classes)


def view(case):
    return {"fmt": case["fmt"], "ranks": [{"rank": r["rank"], "device": device_intervals(r["events"])} for r in case["ranks"]]}


def campaigns(tier: str) -> List[Campaign]:
    return [Campaign("temporal", interval_case(unrounded=True), check, quick=320, thorough=24000, quick_shards=8,
                     required_classes={"touching": 0.05, "nested": 0.05, "zero_length": 0.05, "multi_stream": 0.2,
                                       "multi_rank": 0.1, "nontrivial": 0.3, "rank_ids_not_0..n-1": 0.15},
                     sample_view=view)]
