"""C05 Kernel breakdown partitions busy time by type and conserves per-kernel time."""
from __future__ import annotations

import math
from typing import Any, Dict, List

from hypothesis import strategies as st

from hv.core import Campaign, CaseInfo, hta_call, require
from hv.gen import vocab
from hv.gen.files import scratch_dir, write_case
from hv.gen.intervals import device_intervals, interval_case, tie_classes
from hv.model.intervals import combo_measure, union_measure

ID = "C05"
RULE = ("Campaign breakdown: G-iv (1-3 ranks, 1-14 activities, 1-4 streams, tie-heavy integer coordinates) x num_kernels in 1..6 x duration_ratio in "
        "(0,1] x include_memory_kernels; oracle = exclusive type-combination measure by sweep (type table) and per-name "
        "count/sum/min/max/mean recomputed from the raw entries (per-kernel table). Campaign annotations: the same aggregation "
        "through get_gpu_user_annotation_breakdown on generated host/device user annotations x num_kernels x allowlist. Non-trivial: >= 2 analysed types overlap in "
        "time on some rank and some (rank,type) has more distinct names than num_kernels. Distinct = distinct canonical case JSON.")
ASSUMPTIONS = [
    "only the JSON parser backend (ijson is not installed)",
    "kernel-type class of a name is its tag in hv/gen/vocab.py",
    "which kernels are folded into 'others' is not prescribed beyond 'at most num_kernels named rows'; type-table rows of 0 are ignored",
    "no kernel is literally named 'others'",
]
ORDER = [vocab.COMPUTATION, vocab.COMMUNICATION, vocab.MEMORY]


def combo_name(types) -> str:
    return " overlapping ".join(t for t in ORDER if t in types)


def check(case: Dict[str, Any]) -> CaseInfo:
    from hv.hta_io import load_analysis

    p = case["params"]
    analysed = ORDER[:2] + ([vocab.MEMORY] if p["memory"] else [])
    with scratch_dir() as d:
        files = write_case(case, d)
        ta = load_analysis(files, d, mp=case.get("mp", False), prelude=case.get("prelude"))
        type_df, kern_df = hta_call("get_gpu_kernel_breakdown", lambda: ta.get_gpu_kernel_breakdown(
            visualize=False, duration_ratio=p["ratio"], num_kernels=p["num_kernels"], include_memory_kernels=p["memory"]))
    classes: List[str] = []
    # ---- type table ----------------------------------------------------------------------------
    exp_types: Dict[str, int] = {}
    busy_total = 0
    overlap_seen = False
    for rd in case["ranks"]:
        ivs = device_intervals(rd["events"])
        typed = {t: [(s, e) for n, _, s, e in ivs if vocab.kernel_type(n) == t] for t in analysed}
        for combo, m in combo_measure(typed).items():
            exp_types[combo_name(combo)] = exp_types.get(combo_name(combo), 0) + m
            if len(combo) >= 2:
                overlap_seen = True
        busy_total += union_measure([iv for t in analysed for iv in typed[t]])
    got_types = {str(r["kernel_type"]): float(r["sum"]) for _, r in type_df.iterrows() if r["sum"] != 0}
    require(all(r["sum"] >= 0 for _, r in type_df.iterrows()), "type:nonneg", lambda: type_df.to_string())
    require(got_types == exp_types, "type:combination_times", lambda: f"expected {exp_types}, got {got_types}")
    require(sum(got_types.values()) == busy_total, "type:sum_is_union", lambda: f"{got_types} vs union {busy_total}")
    if busy_total > 0 and any(0 < m < 0.0005 * busy_total for m in exp_types.values()):
        classes.append("combination_share_below_percentage_rounding")
    if busy_total > 0:
        pct_sum = 0.0
        for _, r in type_df.iterrows():
            want = 100.0 * float(r["sum"]) / busy_total
            require(abs(float(r["percentage"]) - want) <= 0.05 + 1e-9, "type:percentage",
                    lambda: f"{r['kernel_type']}: want {want}, got {r['percentage']}")
            pct_sum += float(r["percentage"])
        require(abs(pct_sum - 100.0) <= 0.05 * max(1, len(type_df)) + 1e-9, "type:percent_sum", lambda: f"sum {pct_sum}")
    # ---- per-kernel table ----------------------------------------------------------------------
    many_names = False
    cols = {"sum": "sum (us)", "max": "max (us)", "min": "min (us)", "mean": "mean (us)"}
    seen_keys = set()
    for rd in case["ranks"]:
        ivs = device_intervals(rd["events"])
        for t in analysed:
            durs: Dict[str, List[int]] = {}
            for n, _, s, e in ivs:
                if vocab.kernel_type(n) == t:
                    durs.setdefault(n, []).append(e - s)
            sub = kern_df[(kern_df["rank"] == rd["rank"]) & (kern_df["kernel_type"] == t)]
            seen_keys.add((rd["rank"], t))
            if not durs:
                require(len(sub) == 0, "kernel:rows_without_kernels", lambda: sub.to_string())
                continue
            total = sum(sum(v) for v in durs.values())
            require(float(sub[cols["sum"]].sum()) == float(total), "kernel:sum_conserved",
                    lambda: f"rank {rd['rank']} {t}: total {total}, rows\n{sub.to_string()}")
            named = sub[sub["name"] != "others"]
            require(len(named) <= p["num_kernels"] or len(durs) <= p["num_kernels"], "kernel:at_most_num_kernels",
                    lambda: f"{len(named)} named rows > {p['num_kernels']}\n{sub.to_string()}")
            require(named["name"].is_unique and (sub["name"] == "others").sum() <= 1, "kernel:unique_rows", lambda: sub.to_string())
            if len(durs) <= p["num_kernels"]:
                require(sorted(named["name"]) == sorted(durs) and len(named) == len(sub), "kernel:all_named_when_few",
                        lambda: f"names {sorted(durs)}\n{sub.to_string()}")
            else:
                many_names = True
                classes.append("others_bucket")
            for _, r in named.iterrows():
                require(r["name"] in durs, "kernel:unknown_name", lambda: f"{r['name']!r} not a {t} kernel of rank {rd['rank']}")
                v = durs[r["name"]]
                want = {"sum": sum(v), "max": max(v), "min": min(v), "mean": sum(v) / len(v)}
                for k, w in want.items():
                    g = float(r[cols[k]])
                    require(not math.isnan(g) and abs(g - w) <= 1e-9 * max(1.0, abs(w)), f"kernel:named_{k}",
                            lambda: f"rank {rd['rank']} {t} {r['name']!r}: durations {v}: want {want}, got {r.to_dict()}")
            if len(v := [x for vs in durs.values() for x in vs]) and any(len(vs) > 1 for vs in durs.values()):
                classes.append("repeated_name")
    for _, r in kern_df.iterrows():
        require((int(r["rank"]), r["kernel_type"]) in seen_keys, "kernel:unexpected_group", lambda: str(r.to_dict()))
    if overlap_seen:
        classes.append("type_overlap")
    if p["memory"]:
        classes.append("with_memory")
    if len(case["ranks"]) >= 2:
        classes.append("multi_rank")
    classes += tie_classes([iv for rd in case["ranks"] for iv in device_intervals(rd["events"])])
    return CaseInfo(nontrivial=overlap_seen and many_names, classes=classes)


@st.composite
def c05_case(draw):
    case = draw(interval_case(weights=(6, 3, 3, 1), min_n=2, unrounded=True))
    case["params"] = {
        "num_kernels": draw(st.integers(1, 6)),
        "ratio": draw(st.one_of(st.sampled_from([0.1, 0.25, 0.5, 0.8, 0.9, 1.0]),
                                st.floats(0.01, 1.0, allow_nan=False).map(lambda x: round(x, 3)))),
        "memory": draw(st.booleans()),
    }
    return case


def view(case):
    return {"params": case["params"], "ranks": [{"rank": r["rank"], "device": device_intervals(r["events"])} for r in case["ranks"]]}


# ---- user-annotation breakdown (same aggregator, other event selection) -----------------------------
ANN_NAMES = ["forward", "loss", "optimizer", "data_loading", "u_block_a", "u_block_b", "nccl:all_reduce", "step_hook"]


@st.composite
def ann_case(draw):
    nranks = draw(st.sampled_from([1, 2, 1]))
    ranks = []
    for r in range(nranks):
        events = [{"ph": "X", "cat": "cpu_op", "name": "aten::empty", "pid": 1000 + r, "tid": 1000 + r, "ts": draw(st.integers(0, 5)),
                   "dur": 1, "args": {"External id": 1}}]
        for _ in range(draw(st.sampled_from([1, 3, 5, 8, 12]))):
            gpu = draw(st.sampled_from([True, False]))
            name = draw(st.sampled_from(ANN_NAMES))
            ts, dur = draw(st.integers(0, 40)), draw(st.sampled_from([0, 1, 2, 5, 9, 20]))
            if gpu:
                events.append({"ph": "X", "cat": "gpu_user_annotation", "name": name, "pid": r % 8, "tid": 7, "ts": ts, "dur": dur,
                               "args": {"stream": 7, "External id": 5}})
            else:
                events.append({"ph": "X", "cat": "user_annotation", "name": name, "pid": 1000 + r, "tid": 1000 + r, "ts": ts, "dur": dur,
                               "args": {"External id": 6}})
        ranks.append({"rank": r, "events": events})
    from hv.hta_io import prelude_strategy

    return {"ranks": ranks, "fmt": "json", "prelude": draw(prelude_strategy()), "params": {
        "gpu": draw(st.sampled_from([True, False])), "num_kernels": draw(st.sampled_from([1, 2, 3, 5, 1000])),
        "ratio": draw(st.sampled_from([0.8, 0.5, 0.2, 1.0])),
        "allow": draw(st.sampled_from([None, None, ["loss"], ["u_block"], ["forward", "optimizer"]]))}}


def check_ann(case: Dict[str, Any]) -> CaseInfo:
    from hv.hta_io import load_analysis
    from hv.model.raw import complete_rows

    p = case["params"]
    cat = "gpu_user_annotation" if p["gpu"] else "user_annotation"
    with scratch_dir() as d:
        files = write_case(case, d)
        ta = load_analysis(files, d, prelude=case.get("prelude"))
        df = hta_call("get_gpu_user_annotation_breakdown", lambda: ta.get_gpu_user_annotation_breakdown(
            use_gpu_annotation=p["gpu"], visualize=False, duration_ratio=p["ratio"], num_kernels=p["num_kernels"],
            allowlist_patterns=p["allow"]))
    present = any(r.cat == cat for rd in case["ranks"] for r in complete_rows(rd["events"]))
    if not present:
        require(df is None, "annotations:none_expected", lambda: str(df))
        return CaseInfo(nontrivial=False, classes=["no_annotation_of_kind"])
    require(df is not None, "annotations:missing", "None returned")
    classes: List[str] = []
    nt = False
    for rd in case["ranks"]:
        durs: Dict[str, List[int]] = {}
        for r in complete_rows(rd["events"]):
            if r.cat == cat:
                durs.setdefault(r.name, []).append(r.dur)
        sub = df[df["rank"] == rd["rank"]]
        if not durs:
            require(len(sub) == 0, "annotations:rows_without_events", lambda: sub.to_string())
            continue
        total = sum(sum(v) for v in durs.values())
        require(float(sub["sum (us)"].sum()) == float(total), "annotations:sum_conserved", lambda: f"{total}\n{sub.to_string()}")
        named = sub[sub["name"] != "others"]
        allowed = [n for n in durs if p["allow"] and any(a in n for a in p["allow"])]
        require(len(named) <= p["num_kernels"] + len(allowed) or len(durs) <= p["num_kernels"], "annotations:at_most_num_kernels_plus_allowlist",
                lambda: f"{len(named)} named rows, num_kernels {p['num_kernels']}, allowlisted {allowed}\n{sub.to_string()}")
        if len(durs) > p["num_kernels"]:
            classes.append("others_bucket")
            for n in allowed:
                require(n in set(named["name"]), "annotations:allowlisted_name_kept", lambda: f"{n!r}\n{sub.to_string()}")
            if allowed:
                classes.append("allowlist_effective")
            nt = True
        for _, r in named.iterrows():
            require(r["name"] in durs, "annotations:unknown_name", lambda: str(r.to_dict()))
            v = durs[r["name"]]
            want = {"sum (us)": sum(v), "max (us)": max(v), "min (us)": min(v), "mean (us)": sum(v) / len(v)}
            for k, w in want.items():
                require(abs(float(r[k]) - w) <= 1e-9 * max(1.0, abs(w)), "annotations:named_" + k.split()[0],
                        lambda: f"rank {rd['rank']} {r['name']!r}: durations {v}: want {want}, got {r.to_dict()}")
    classes.append("gpu_annotations" if p["gpu"] else "cpu_annotations")
    return CaseInfo(nontrivial=nt, classes=classes)


def campaigns(tier: str) -> List[Campaign]:
    return [Campaign("breakdown", c05_case(), check, quick=400, thorough=20000, quick_shards=8,
                     required_classes={"activity_on_stream_0": 0.05, "type_overlap": 0.3, "others_bucket": 0.15, "with_memory": 0.2, "multi_rank": 0.1,
                                       "repeated_name": 0.2, "combination_share_below_percentage_rounding": 0.02},
                     sample_view=view),
            Campaign("annotations", ann_case(), check_ann, quick=240, thorough=8000, quick_shards=4,
                     required_classes={"others_bucket": 0.15, "gpu_annotations": 0.2, "cpu_annotations": 0.2},
                     sample_view=lambda c: {"params": c["params"], "events": [[e["cat"], e["name"], e["dur"]] for e in c["ranks"][0]["events"]]})]
