"""C02 Correlation links pair each launch call with its device activity, mutually."""
from __future__ import annotations

from typing import Any, Dict, List

from hypothesis import strategies as st

from hv.core import Campaign, CaseInfo, hta_call, require
from hv.gen.files import scratch_dir, write_case
from hv.gen.kineto_sim import Opts, sim_case
from hv.model.raw import complete_rows, is_device, links
from hv.model.trace import kept_after_load

ID = "C02"
RULE = ("G-sim traces (1-3 ranks; launches of kernels/memcpy/memset on 1-3 streams, stream and device synchronisation calls "
        "with their Stream Sync / Context Sync records, non-launching runtime calls carrying an id without partner) with fault "
        "injection (launch call dropped, activity dropped, correlation id stripped from the activity, sync record dropped); "
        "parse-only and full load (incl. loads that trim the trailing profiler step), and files whose positions exceed 127 while "
        "all correlation ids are below 128 (narrow column dtypes). Oracle: per row the link equals the model (-1 no id / 0 partner absent / id of the unique "
        "opposite-side row with the same correlation id), checked in both directions, plus the 'never' clauses directly on every "
        "positive link (same id, opposite sides, mutual). Non-trivial: one file has >= 1 mutual pair, >= 1 missing partner and "
        ">= 1 sync record on stream -1. Distinct = distinct canonical case JSON.")
ASSUMPTIONS = [
    "a correlation id pairs at most one host call with one device activity; device stream ids are positive; sync records carry an id",
    "device side = activity with stream >= 0 and an id, or an Event Sync / Context Sync record (stream -1)",
    "only the JSON parser backend",
]


def check(case: Dict[str, Any]) -> CaseInfo:
    from hv.hta_io import load_trace

    classes: List[str] = []
    with scratch_dir() as d:
        files = write_case(case, d)
        t = load_trace(files, d, parse_only=case["parse_only"], mp=case.get("mp", False))
    nontrivial = False
    for rd in case["ranks"]:
        rows = complete_rows(rd["events"])
        want = links(rows)
        df = t.get_trace(rd["rank"])
        got = {int(i): int(v) for i, v in zip(df["index"], df["index_correlation"])}
        if not case["parse_only"]:
            # loading may trim the trailing profiler step (C12): the links of the rows that remain must still be
            # mutual and point at rows that are present
            keep, free = kept_after_load(rows, include_last=False)
            keep |= free & set(got)
            if len(keep) < len(rows):
                classes.append("trimmed_load")
            rows = [r for r in rows if r.id in keep]
            want = {i: v for i, v in want.items() if i in keep}
            for i, v in want.items():
                assert v is None or v <= 0 or v in keep, "model: a kept row is linked to a dropped row"
        by_id = {r.id: r for r in rows}
        require(sorted(got) == sorted(want), "rows:ids", lambda: f"rank {rd['rank']}: {sorted(got)} vs {sorted(want)}")
        for i, w in want.items():
            assert w is not None, "generator produced an ambiguous correlation id"
            require(got[i] == w, "link:value",
                    lambda: f"rank {rd['rank']} event {i} {by_id[i].name!r} corr={by_id[i].correlation} stream={by_id[i].stream}: "
                            f"link {got[i]}, expected {w}")
        for i, g in got.items():
            if g > 0:
                require(g in by_id, "link:target_exists", lambda: f"event {i} -> {g}")
                a, b = by_id[i], by_id[g]
                require(a.correlation == b.correlation and a.correlation != -1, "link:same_correlation_id",
                        lambda: f"{i}(corr {a.correlation}) -> {g}(corr {b.correlation})")
                require(is_device(a) != is_device(b), "link:opposite_sides", lambda: f"{i} -> {g}")
                require(got[g] == i, "link:mutual", lambda: f"{i} -> {g} but {g} -> {got[g]}")
            else:
                require(g in (0, -1), "link:sentinel", lambda: f"event {i}: {g}")
                require((g == -1) == (by_id[i].correlation == -1), "link:sentinel_meaning",
                        lambda: f"event {i} corr {by_id[i].correlation} link {g}")
        n_pair = sum(1 for v in want.values() if v and v > 0) // 2
        n_missing = sum(1 for v in want.values() if v == 0)
        n_sync_m1 = sum(1 for r in rows if r.name in ("Context Sync", "Event Sync"))
        if n_pair:
            classes.append("mutual_pair")
        if n_missing:
            classes.append("missing_partner")
        if n_sync_m1:
            classes.append("sync_on_stream_-1")
        if any(r.name == "Event Sync" for r in rows):
            classes.append("event_sync")
        if any(r.name == "Stream Sync" for r in rows):
            classes.append("stream_sync")
        if any(is_device(r) and want[r.id] == 0 for r in rows):
            classes.append("activity_without_launch")
        if any((not is_device(r)) and want[r.id] == 0 for r in rows):
            classes.append("host_call_without_partner")
        if any(r.stream > 0 and r.correlation == -1 for r in rows):
            classes.append("activity_without_id")
        if n_pair and n_missing and n_sync_m1:
            nontrivial = True
        if any(r.correlation == 0 and want[r.id] > 0 for r in rows):
            classes.append("pair_with_correlation_id_0")
    classes.append("parse_only" if case["parse_only"] else "full_load")
    if case.get("big"):
        classes.append("positions_above_127_with_small_correlation_ids")
    if case.get("huge_corr"):
        classes.append("correlation_ids_beyond_2**53")
    if len(case["ranks"]) > 1:
        classes.append("multi_rank")
    return CaseInfo(nontrivial=nontrivial, classes=classes)


@st.composite
def c02_case(draw):
    parse_only = draw(st.sampled_from([True, False]))
    big = draw(st.sampled_from([False, False, False, True]))
    o = Opts(fractional_stamps=True, unrounded=True, early_kernels=True, steps=[0, 1, 2, 3], w_sync=3, max_top=4, event_sync=True, cuda_events=True,
             pad_entries=draw(st.sampled_from([130, 140, 200])) if big else 0, corr_base=draw(st.sampled_from([0, 1, 20])) if big else None)
    case = draw(sim_case(o, max_ranks=3))
    case["big"] = big
    case["parse_only"] = parse_only
    # correlation ids of a 64-bit counter beyond 2**53: consecutive ids there are distinct integers but equal doubles
    huge = draw(st.sampled_from([False] * 7 + [True]))
    if huge:
        off = 2**53 - 1000
        for rd in case["ranks"]:
            for e in rd["events"]:
                a = e.get("args")
                if isinstance(a, dict):
                    for key in ("correlation", "wait_on_cuda_event_record_corr_id"):
                        if isinstance(a.get(key), int) and a[key] > 0:
                            a[key] += off
    case["huge_corr"] = huge
    # correlation id 0 is an id like any other (only -1 means "no id"): one case in six renames one id of every rank to 0
    if not huge and draw(st.sampled_from([True] + [False] * 5)):
        for rd in case["ranks"]:
            ids = sorted({e["args"]["correlation"] for e in rd["events"] if isinstance(e.get("args"), dict)
                          and isinstance(e["args"].get("correlation"), int) and e["args"]["correlation"] > 0})
            if not ids or any(isinstance(e.get("args"), dict) and e["args"].get("correlation") == 0 for e in rd["events"]):
                continue
            victim = ids[draw(st.integers(0, len(ids) - 1))]
            for e in rd["events"]:
                a = e.get("args")
                if isinstance(a, dict):
                    for key in ("correlation", "wait_on_cuda_event_record_corr_id"):
                        if a.get(key) == victim and isinstance(a.get(key), int):
                            a[key] = 0
    return case


def view(case):
    return {"parse_only": case["parse_only"], "big": case.get("big"), "ranks": [
        {"rank": r["rank"], "rows[id,name,stream,corr]": [[x.id, x.name, x.stream, x.correlation] for x in complete_rows(r["events"])]}
        for r in case["ranks"]]}


def campaigns(tier: str) -> List[Campaign]:
    return [Campaign("links", c02_case(), check, quick=480, thorough=32000, quick_shards=8,
                     required_classes={"unrounded_fractional_times": 0.05, "pair_with_correlation_id_0": 0.06, "mutual_pair": 0.5, "missing_partner": 0.3, "sync_on_stream_-1": 0.1,
                                       "activity_without_launch": 0.05, "event_sync": 0.05, "trimmed_load": 0.05,
                                       "positions_above_127_with_small_correlation_ids": 0.1, "activity_without_id": 0.03, "nontrivial": 0.05},
                     sample_view=view)]
