"""Interval arithmetic by sweep over all endpoints (obviously-correct, quadratic is fine)."""
from __future__ import annotations

from typing import Dict, FrozenSet, Iterable, List, Sequence, Tuple

Interval = Tuple[int, int]  # [start, end)


def union_measure(ivs: Iterable[Interval]) -> int:
    ivs = [(s, e) for s, e in ivs if e > s]
    pts = sorted({p for iv in ivs for p in iv})
    total = 0
    for a, b in zip(pts, pts[1:]):
        if any(s <= a and b <= e for s, e in ivs):
            total += b - a
    return total


def combo_measure(typed: Dict[str, Sequence[Interval]]) -> Dict[FrozenSet[str], int]:
    """For every set of types: total time during which exactly that set is running."""
    pts = sorted({p for ivs in typed.values() for s, e in ivs if e > s for p in (s, e)})
    out: Dict[FrozenSet[str], int] = {}
    for a, b in zip(pts, pts[1:]):
        cover = frozenset(t for t, ivs in typed.items() if any(s <= a and b <= e for s, e in ivs if e > s))
        if cover:
            out[cover] = out.get(cover, 0) + (b - a)
    return out


def span(ivs: Iterable[Interval]) -> Tuple[int, int]:
    ivs = list(ivs)
    return min(s for s, _ in ivs), max(e for _, e in ivs)
