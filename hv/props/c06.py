"""C06 Idle-time breakdown: gaps between stream-consecutive kernels, classified by rule."""
from __future__ import annotations

import math
from typing import Any, Dict, List

from hypothesis import strategies as st

from hv.core import Campaign, CaseInfo, hta_call, require
from hv.gen.files import scratch_dir, write_case
from hv.gen.kineto_sim import Opts, sim_case
from hv.model.raw import complete_rows, links
from hv.model.trace import kept_after_load

ID = "C06"
RULE = ("G-sim traces (1-2 ranks, FIFO streams so kernels never overlap within a stream, >= 1 kernel per rank, launches missing "
        "for some activities, first file entry possibly a late-starting operator) x threshold 0..40 x stream subset x rank "
        "subset. Oracle: per stream sort kernels/memcpy/memset by start; gap_i = start_i - end_(i-1) is host_wait if the linked "
        "launch call starts after end_(i-1), else kernel_wait if gap < threshold, else other; reported idle per category == sum of "
        "its gaps; categories add up to span - busy; ratios == share of total (2 decimals) and add up to 1. Non-trivial: a "
        "stream with >= 3 kernels showing >= 2 non-empty categories. Distinct = distinct canonical case JSON.")
ASSUMPTIONS = [
    "one case in three has 2-3 profiler steps: the analysed kernels are those the load keeps (C12's model); a kernel without any "
    "correlation id has an open trimming fate (see C12), so every kept / dropped combination of such kernels (at most 3) is an "
    "accepted reading and the result must match one of them",
    "kernels = device activities of category kernel / gpu_memcpy / gpu_memset; synchronisation records are not kernels",
    "kernels of a stream that start at the same instant are consecutive in order of their end (a zero-length kernel precedes the "
    "kernel that starts when it ends); among several zero-length kernels at one instant the launch used for the host_wait test "
    "is the one of the later file entry",
    "every analysed rank has at least one kernel (a rank without kernels is documented as nothing to analyse)",
]
KCATS = ("kernel", "gpu_memcpy", "gpu_memset")
CATS = ("host_wait", "kernel_wait", "other")


def model_stream(kernels, by_id, lk, threshold):
    ks = sorted(kernels, key=lambda r: (r.ts, r.end, r.id))
    out = {c: 0 for c in CATS}
    # kernels with identical (start, end) are interchangeable for the gap amounts only if they are zero-length;
    # identical positive spans would overlap and are outside the domain (never generated)
    ambiguous = False
    for prev, cur in zip(ks, ks[1:]):
        gap = cur.ts - prev.end
        launch = by_id[lk[cur.id]] if lk[cur.id] > 0 else None
        if launch is not None and launch.ts > prev.end:
            out["host_wait"] += gap
        elif gap < threshold:
            out["kernel_wait"] += gap
        else:
            out["other"] += gap
    span = max(k.end for k in ks) - min(k.ts for k in ks)
    busy = sum(k.dur for k in ks)
    return out, span - busy, ambiguous


def check(case: Dict[str, Any]) -> CaseInfo:
    from hv.hta_io import load_analysis

    p = case["params"]
    classes: List[str] = []
    nontrivial = False
    # what loading keeps (>= 2 profiler steps: everything from the last step on is trimmed, see C12).  A kernel without any
    # correlation id has an open fate under trimming: every combination of kept / dropped is an accepted reading.
    base_rows: Dict[int, List[Any]] = {}
    open_kernels: Dict[int, List[Any]] = {}
    trimmed = False
    for rd in case["ranks"]:
        rows_all = complete_rows(rd["events"])
        keep, free = kept_after_load(rows_all, include_last=False)
        is_k = lambda r: r.stream != -1 and r.cat in KCATS  # noqa: E731
        open_kernels[rd["rank"]] = [r for r in rows_all if r.id in free and is_k(r)]
        base_rows[rd["rank"]] = [r for r in rows_all if r.id in keep or (r.id in free and not is_k(r))]
        trimmed = trimmed or len(keep) + len(free) < len(rows_all)
    want_ranks = p["ranks"] if p["ranks"] else [0]
    for rank in want_ranks:
        if not any(r.stream != -1 and r.cat in KCATS for r in base_rows.get(rank, [])):
            return CaseInfo(nontrivial=False, classes=[], excluded=["requested_rank_without_kernels_after_trimming"])
        if len(open_kernels.get(rank, [])) > 3:
            return CaseInfo(nontrivial=False, classes=[], excluded=["more_than_3_uncorrelated_kernels_in_a_trimmed_trace"])
    if trimmed:
        classes.append("trimmed_by_last_profiler_step")
        if any(open_kernels.get(r) for r in want_ranks):
            classes.append("trimmed_trace_with_uncorrelated_kernel")
    with scratch_dir() as d:
        files = write_case(case, d)
        ta = load_analysis(files, d, mp=case.get("mp", False), prelude=case.get("prelude"))
        df, _ = hta_call("get_idle_time_breakdown", lambda: ta.get_idle_time_breakdown(
            ranks=p["ranks"], streams=p["streams"], visualize=False, consecutive_kernel_delay=p["threshold"]))
    require(set(int(r) for r in df["rank"]) <= set(want_ranks), "ranks", lambda: f"{sorted(set(df['rank']))} vs {want_ranks}")
    import itertools

    from hv.core import Violation

    def validate_rank(rd, rows, classes) -> bool:
        nontrivial = False
        rank = rd["rank"]
        lk_all = links(complete_rows(rd["events"]))
        kept_ids = {r.id for r in rows}
        lk = {i: (v if v in kept_ids else 0) for i, v in lk_all.items()}  # a partner that was trimmed away is absent
        by_id = {r.id: r for r in rows}
        kern = [r for r in rows if r.stream != -1 and r.cat in KCATS]
        streams = sorted({r.stream for r in kern})
        sel = [s for s in streams if not p["streams"] or s in p["streams"]]
        sub_rank = df[df["rank"] == rank]
        require(sorted(set(int(s) for s in sub_rank["stream"])) == sel, "streams", lambda: f"{sorted(set(sub_rank['stream']))} vs {sel}")
        if rows[0].ts > min(k.ts for k in kern):
            classes.append("first_entry_not_earliest")
        for s in sel:
            ks = [r for r in kern if r.stream == s]
            want, total, ambiguous = model_stream(ks, by_id, lk, p["threshold"])
            sub = sub_rank[sub_rank["stream"] == s]
            got = {c: 0.0 for c in CATS}
            for _, r in sub.iterrows():
                require(r["idle_category"] in CATS, "category:name", lambda: str(r.to_dict()))
                got[r["idle_category"]] += float(r["idle_time"])
            require(all(v >= 0 for v in got.values()), "idle:nonneg", lambda: str(got))
            require(abs(sum(got.values()) - total) < 1e-9, "idle:sum_is_span_minus_busy",
                    lambda: f"rank {rank} stream {s}: {got} vs span-busy {total}")
            if len({k.ts for k in ks}) != len(ks):
                classes.append("same_start_kernels")
            if True:
                require(all(abs(got[c] - want[c]) < 1e-9 for c in CATS), "idle:per_category",
                        lambda: f"rank {rank} stream {s} thr {p['threshold']}: got {got}, expected {want}; kernels "
                                f"{[(k.id, k.ts, k.end, lk[k.id], by_id[lk[k.id]].ts if lk[k.id] > 0 else None) for k in sorted(ks, key=lambda r: r.ts)]}")
            if total > 0:
                rsum = 0.0
                for _, r in sub.iterrows():
                    w = got[r["idle_category"]] / total
                    require(abs(float(r["idle_time_ratio"]) - w) <= 0.005 + 1e-9, "ratio:value", lambda: f"{r.to_dict()} want {w}")
                    rsum += float(r["idle_time_ratio"])
                require(abs(rsum - 1.0) <= 0.005 * 3 + 1e-9, "ratio:sum_to_one", lambda: f"{rsum}")
            nz = sum(1 for c in CATS if want[c] > 0)
            for c in CATS:
                if want[c] > 0:
                    classes.append(c)
            if len(ks) >= 3 and nz >= 2 and not ambiguous:
                nontrivial = True
            if sum(1 for k in ks[1:] if lk[k.id] <= 0) >= 2:
                classes.append("several_activities_without_launch_on_a_stream")
            if any(lk[k.id] <= 0 for k in ks[1:]):
                classes.append("activity_without_launch")
                if rows[0].ts > min(k.ts for k in kern):
                    classes.append("F10_pattern")
        if p["streams"]:
            classes.append("stream_subset")
        return nontrivial

    for rd in case["ranks"]:
        rank = rd["rank"]
        if rank not in want_ranks:
            continue
        opens = open_kernels[rank] if trimmed else []
        first_err = None
        for n_keep in range(len(opens), -1, -1):
            done = False
            for subset in itertools.combinations(opens, n_keep):
                rows = sorted(base_rows[rank] + list(subset) + ([] if trimmed else open_kernels[rank]), key=lambda r: r.id)
                local: List[str] = []
                try:
                    if validate_rank(rd, rows, local):
                        nontrivial = True
                    classes += local
                    done = True
                    break
                except Violation as e:
                    first_err = first_err or e
            if done:
                break
        else:
            raise first_err
    return CaseInfo(nontrivial=nontrivial, classes=classes)


@st.composite
def c06_case(draw):
    trimming = draw(st.sampled_from([False, False, True]))
    o = Opts(fractional_stamps=True, unrounded=True, early_kernels=True, steps=[0, 1] if not trimming else [2, 3], w_launch=9, w_sync=1, w_op=3, w_rt=1, max_top=6, streams=3, ensure_kernel=True, lead_op=True, fault_none_weight=5,
             second_thread=False)
    case = draw(sim_case(o, max_ranks=2))
    all_ranks = [r["rank"] for r in case["ranks"]]
    mode = draw(st.sampled_from(["all", "none", "one"] if 0 in all_ranks else ["all", "one"]))  # None means rank 0
    ranks = None if mode == "none" else list(all_ranks) if mode == "all" else [draw(st.sampled_from(all_ranks))]
    streams_present = sorted({r.stream for rd in case["ranks"] for r in complete_rows(rd["events"])
                              if r.stream != -1 and r.cat in KCATS})
    pick_streams = draw(st.sampled_from(["all", "all", "subset"]))
    streams = None
    if pick_streams == "subset" and streams_present:
        streams = list(draw(st.permutations(streams_present)))[: draw(st.sampled_from([1, 2]))]
        # every analysed rank must own each requested stream's kernels or the stream is simply absent there
    case["params"] = {"ranks": ranks, "streams": streams, "threshold": draw(st.sampled_from([0, 1, 2, 3, 5, 10, 30, 40]))}
    return case


def view(case):
    return {"params": case["params"], "ranks": [
        {"rank": r["rank"], "rows[id,name,ts,dur,stream,corr]": [[x.id, x.name, x.ts, x.dur, x.stream, x.correlation]
                                                                for x in complete_rows(r["events"])]} for r in case["ranks"][:1]]}


def campaigns(tier: str) -> List[Campaign]:
    return [Campaign("idle", c06_case(), check, quick=400, thorough=24000, quick_shards=8,
                     required_classes={"unrounded_fractional_times": 0.05, "host_wait": 0.2, "kernel_wait": 0.15, "other": 0.15, "activity_without_launch": 0.05,
                                       "F10_pattern": 0.02, "first_entry_not_earliest": 0.1, "trimmed_by_last_profiler_step": 0.08},
                     sample_view=view)]
