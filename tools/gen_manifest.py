#!/usr/bin/env python3
"""Regenerate /verif/MANIFEST.json from the table below (keeps it schema-valid at all times)."""
import json, os

ROOT = os.path.dirname(os.path.dirname(os.path.abspath(__file__)))
PY = "PYTHONHASHSEED=0 /venv/bin/python"

# id -> (technique, level text, level note, design ref)
CHECKS = {}


def add(pid, technique, text, note, ref):
    CHECKS[pid] = (technique, text, note, ref)


exec(open(os.path.join(ROOT, "tools", "manifest_table.py")).read())

NOT_APPLICABLE = json.load(open(os.path.join(ROOT, "tools", "not_applicable.json")))

m = {
    "version": 1,
    "setup_cmd": "/venv/bin/python -m pip install --no-index --find-links /opt/veriftools/wheels hypothesis >/dev/null 2>&1; /venv/bin/python -m pip install --no-index --find-links /opt/veriftools/wheels --target /verif/.deps atheris >/dev/null 2>&1; /venv/bin/python -c 'import hypothesis, hta, pandas; print(hypothesis.__version__)'",
    "hooks": {
        "guard": "HTA_VERIF",
        "enable": "no source hooks are needed: /venv has an editable install of /repo, so every check imports the current working tree; the harness owns hash seeds, worker schedules and environment options from outside",
        "baseline_off_cmd": "cd /repo && env -u HTA_VERIF /venv/bin/python -m pytest -q -p no:cacheprovider --timeout=900 --continue-on-collection-errors",
        "source_commits": [],
        "add_only": True,
    },
    "engines": [{"name": "hv", "path": "hv/", "serves_properties": sorted(CHECKS),
                 "kind_free_text": "Hypothesis strategies + pure-Python reference models, sharded over worker processes; replay files re-run the oracle without Hypothesis"}],
    "checks": [],
    "notes": "Fix commits made in /repo are listed in known_findings.json (status fixed). failures/ holds replay files written at run time; replays/ holds committed regression inputs.",
    "not_applicable": [x for x in NOT_APPLICABLE if x["property_id"] not in CHECKS],
}
for pid in sorted(CHECKS):
    technique, text, note, ref = CHECKS[pid]
    m["checks"].append({
        "property_id": pid,
        "quick_cmd": f"{PY} -m hv.run {pid} --tier quick",
        "thorough_cmd": f"{PY} -m hv.run {pid} --tier thorough",
        "evidence_file": f"evidence/{pid}.json",
        "replay_cmd_template": f"{PY} -m hv.replay {{path}}",
        "engine": "hv",
        "level_claimed": {"category": "exploration", "text": text, "design_ref": ref},
        "level_note": note,
        "technique": technique,
    })
json.dump(m, open(os.path.join(ROOT, "MANIFEST.json"), "w"), indent=1)
print("checks:", [c["property_id"] for c in m["checks"]], "not_applicable:", [x["property_id"] for x in m["not_applicable"]])
