"""Trace-level reference model: iterations and trimming (pure Python over raw entries)."""
from __future__ import annotations

import re
from typing import Dict, List, Optional, Set, Tuple

from hv.model.raw import Row, is_device, links

STEP_RE = re.compile(r"^ProfilerStep#(\d+)$")


def step_rows(rows: List[Row]) -> List[Tuple[int, Row]]:
    out = []
    for r in rows:
        m = STEP_RE.match(r.name or "")
        if m and r.stream == -1:
            out.append((int(m.group(1)), r))
    return out


def own_start_iteration(r: Row, steps: List[Tuple[int, Row]]) -> int:
    it = -1
    for n, s in steps:
        if s.ts <= r.ts < s.ts + s.dur:
            it = n
    return it


def iterations(rows: List[Row]) -> Dict[int, Set[int]]:
    """id -> set of acceptable iteration values (a singleton except for sync records on stream -1,
    where both 'own start' and 'inherited from the linked call' are accepted)."""
    steps = step_rows(rows)
    lk = links(rows)
    by_id = {r.id: r for r in rows}
    own = {r.id: own_start_iteration(r, steps) for r in rows if r.stream < 0}
    out: Dict[int, Set[int]] = {}
    for r in rows:
        if r.stream < 0:
            out[r.id] = {own[r.id]}
            if is_device(r):  # Event Sync / Context Sync on stream -1
                out[r.id].add(own[lk[r.id]] if lk[r.id] > 0 else -1)
        else:
            out[r.id] = {own[lk[r.id]] if lk[r.id] > 0 and by_id[lk[r.id]].stream < 0 else -1}
    return out


def kept_after_load(rows: List[Row], include_last: bool) -> Tuple[Set[int], Set[int]]:
    """(ids that must be kept, ids whose fate is not prescribed) after loading a trace.

    With fewer than two profiler steps nothing is dropped.  Otherwise: host events that start before
    the last step begins (or no later than its end when the last step is requested) plus the device
    activities launched by kept host events.  A stream activity without any correlation id is neither
    a host event nor launched by one: its fate is left open (see DESIGN.md, input-domain decisions)."""
    steps = step_rows(rows)
    if len({n for n, _ in steps}) < 2:
        return {r.id for r in rows}, set()
    last_start = max(s.ts for _, s in steps)
    last_end = max(s.ts + s.dur for _, s in steps)
    lk = links(rows)
    kept: Set[int] = set()
    free: Set[int] = set()
    for r in rows:
        if not is_device(r):
            if r.stream >= 0:
                free.add(r.id)  # activity on a stream without correlation id
                continue
            if (r.ts <= last_end) if include_last else (r.ts < last_start):
                kept.add(r.id)
    by_id = {r.id: r for r in rows}
    for r in rows:
        if is_device(r) and lk[r.id] > 0 and lk[r.id] in kept:
            kept.add(r.id)
    return kept, free
