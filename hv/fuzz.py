"""Coverage-guided tier (additive): drive a campaign's Hypothesis strategy and oracle with libFuzzer through
Atheris (`test.hypothesis.fuzz_one_input`), with the hta modules instrumented for coverage feedback.

usage: python -m hv.fuzz <ID> <campaign> <out.json> <corpus_dir> [libFuzzer flags, e.g. -runs=20000 -seed=1]

The oracle runs inside the target: a Violation is written out as a replay case (same format as the Hypothesis tier)
and then re-raised so that libFuzzer stops.  Exit status is libFuzzer's; the parent reads <out.json>.
"""
from __future__ import annotations

import json
import os
import sys
import time


def main() -> int:
    pid, camp_name, out, corpus = sys.argv[1], sys.argv[2], sys.argv[3], sys.argv[4]
    flags = sys.argv[5:]
    state = {"executions": 0, "nontrivial": 0, "failure": None, "atheris": "ok", "t0": time.time()}

    def dump() -> None:
        state["wall_s"] = time.time() - state["t0"]
        with open(out, "w") as fh:
            json.dump(state, fh, default=str)

    try:
        import atheris
    except Exception as e:  # noqa: BLE001
        state["atheris"] = f"unavailable: {e!r}"
        dump()
        return 0
    include = ["hta.common.call_stack", "hta.common.trace_call_stack", "hta.common.trace_parser", "hta.common.trace",
               "hta.common.trace_filter", "hta.common.trace_symbol_table", "hta.utils.utils"]
    with atheris.instrument_imports(include=include):
        import hta.common.call_stack  # noqa: F401
        import hta.common.trace  # noqa: F401
        import hta.common.trace_call_stack  # noqa: F401
        import hta.common.trace_filter  # noqa: F401
        import hta.common.trace_parser  # noqa: F401
        import hta.utils.utils  # noqa: F401
    from hypothesis import HealthCheck, given, settings

    from hv.core import Violation
    from hv.run import find_campaign, load_module

    camp = find_campaign(load_module(pid), "thorough", camp_name)

    @settings(database=None, deadline=None, suppress_health_check=list(HealthCheck), max_examples=10**9)
    @given(camp.strategy)
    def test(case):
        state["executions"] += 1
        try:
            info = camp.check(case)
        except Violation as v:
            state["failure"] = {"case": case, "check": v.check, "detail": v.detail}
            dump()
            raise
        if info.nontrivial:
            state["nontrivial"] += 1
        if state["executions"] % 250 == 0:
            dump()

    os.makedirs(corpus, exist_ok=True)
    dump()
    atheris.Setup([sys.argv[0], corpus] + flags, test.hypothesis.fuzz_one_input)
    import atexit  # noqa: F401  (atexit handlers do not run under libFuzzer: dump explicitly)

    try:
        atheris.Fuzz()
    finally:
        dump()
    return 0


if __name__ == "__main__":
    sys.exit(main())
