"""C12 Iteration numbers follow profiler steps; loading trims only the trailing step."""
from __future__ import annotations

from typing import Any, Dict, List

from hypothesis import strategies as st

from hv.core import Campaign, CaseInfo, hta_call, require
from hv.gen.files import scratch_dir, write_case
from hv.gen.kineto_sim import Opts, sim_case
from hv.model.raw import complete_rows, is_device, links
from hv.model.trace import iterations, kept_after_load, step_rows

ID = "C12"
RULE = ("G-sim traces (1-2 ranks) with 0, 1, 2, 3 or 4 profiler steps (gaps between steps, work before the first and after the "
        "last step, a second host thread whose calls straddle step boundaries, launches whose kernels run in a later step, fault "
        "injection) x include_last_profiler_step. Oracle after parse_traces(): every row's iteration equals the model (host: "
        "step whose half-open span contains its start; device: linked call's value; -1 otherwise). Oracle after load_traces(): "
        "kept id set == model set (both directions), no duplicated row, get_iterations() == sorted distinct non-negative values "
        "of kept rows. Non-trivial: >= 2 steps, something after the last step begins, and a device activity launched in the last "
        "step. Distinct = distinct canonical case JSON.")
ASSUMPTIONS = [
    "all ranks of one trace set carry the same profiler-step numbers",
    "for synchronisation records on stream -1 both readings of the iteration rule are accepted (own start / inherited)",
    "the fate of a stream activity that carries no correlation id at all is not prescribed by the trimming rule (counted, not asserted)",
    "profiler steps do not overlap each other",
]


def check(case: Dict[str, Any]) -> CaseInfo:
    from hv.hta_io import load_trace

    inc = case["include_last"]
    classes: List[str] = []
    nontrivial = False
    with scratch_dir() as d:
        files = write_case(case, d)
        tp = load_trace(files, d, parse_only=True, mp=False)
        tl = load_trace(files, d, include_last=inc, mp=case.get("mp", False))
    for rd in case["ranks"]:
        rank = rd["rank"]
        rows = complete_rows(rd["events"])
        by_id = {r.id: r for r in rows}
        want_it = iterations(rows)
        dfp = tp.get_trace(rank)
        got_it = {int(i): int(v) for i, v in zip(dfp["index"], dfp["iteration"])}
        require(sorted(got_it) == sorted(want_it), "parse:rows", lambda: f"{sorted(got_it)} vs {sorted(want_it)}")
        for i, w in want_it.items():
            require(got_it[i] in w, "parse:iteration",
                    lambda: f"rank {rank} event {i} {by_id[i].name!r} ts={by_id[i].ts} stream={by_id[i].stream}: iteration {got_it[i]}, expected {sorted(w)}; "
                            f"steps {[(n, s.ts, s.ts + s.dur) for n, s in step_rows(rows)]}")
        # ---- trimming ----
        keep, free = kept_after_load(rows, inc)
        dfl = tl.get_trace(rank)
        ids = [int(i) for i in dfl["index"]]
        require(len(ids) == len(set(ids)), "load:duplicated_rows", lambda: f"{sorted(ids)}")
        require(list(dfl.index) == ids, "load:index_is_id", lambda: f"{list(dfl.index)} vs {ids}")
        got = set(ids)
        require(got - free == keep, "load:kept_set",
                lambda: f"rank {rank} include_last={inc}: wrongly dropped {sorted(keep - got)} wrongly kept {sorted(got - free - keep)}; "
                        f"steps {[(n, s.ts, s.ts + s.dur) for n, s in step_rows(rows)]}; "
                        f"rows {[(r.id, r.name, r.ts, r.stream, r.correlation) for r in rows if r.id in (keep ^ (got - free))]}")
        got_iters = hta_call("get_iterations", lambda: tl.get_iterations(rank))
        acceptable = [want_it[i] for i in ids]
        kept_it = {int(v) for v in dfl["iteration"]}
        require([int(x) for x in got_iters] == sorted(v for v in kept_it if v >= 0), "load:get_iterations",
                lambda: f"{got_iters} vs kept values {sorted(kept_it)}")
        for i, v in zip(ids, dfl["iteration"]):
            require(int(v) in want_it[i], "load:iteration_preserved", lambda: f"event {i}: {v} vs {want_it[i]}")
        steps = step_rows(rows)
        nsteps = len({n for n, _ in steps})
        classes.append(f"steps={min(nsteps, 3)}")
        if next(iter(want_it[rows[0].id])) >= 0 and any(is_device(r) and r.correlation != -1 and links(rows)[r.id] == 0 for r in rows):
            classes.append("first_entry_inside_a_step_and_orphan_activity")
        if free & got:
            classes.append("uncorrelated_activity_kept")
        if nsteps >= 2:
            last_start = max(s.ts for _, s in steps)
            lk = links(rows)
            after = any(r.ts >= last_start and not is_device(r) and r.stream < 0 and not r.name.startswith("ProfilerStep") for r in rows)
            launched_last = any(is_device(r) and lk[r.id] > 0 and by_id[lk[r.id]].ts >= last_start for r in rows)
            cross = any(is_device(r) and r.stream > 0 and lk[r.id] > 0 and by_id[lk[r.id]].ts < last_start <= r.ts for r in rows)
            if after:
                classes.append("work_after_last_step_start")
            if launched_last:
                classes.append("activity_launched_in_last_step")
            if cross:
                classes.append("kernel_runs_in_later_step_than_launch")
            if any(r.ts == last_start and r.stream < 0 and not r.name.startswith("ProfilerStep") for r in rows):
                classes.append("event_at_last_step_start")
            if after and launched_last:
                nontrivial = True
            if len(keep) < len(rows) - len(free):
                classes.append("trimmed")
    classes.append("include_last" if inc else "exclude_last")
    return CaseInfo(nontrivial=nontrivial, classes=classes)


@st.composite
def c12_case(draw):
    o = Opts(fractional_stamps=True, unrounded=True, early_kernels=True, steps=[0, 1, 2, 2, 3, 3, 4], max_top=3, w_launch=6, w_sync=2, second_thread=True, lead_op=True, cuda_events=True)
    case = draw(sim_case(o, max_ranks=2))
    case["include_last"] = draw(st.sampled_from([True, False]))
    return case


def view(case):
    return {"include_last": case["include_last"], "ranks": [
        {"rank": r["rank"], "rows[id,name,ts,dur,stream,corr]": [[x.id, x.name, x.ts, x.dur, x.stream, x.correlation]
                                                                for x in complete_rows(r["events"])]} for r in case["ranks"][:1]]}


def campaigns(tier: str) -> List[Campaign]:
    return [Campaign("iterations", c12_case(), check, quick=400, thorough=24000, quick_shards=8,
                     required_classes={"unrounded_fractional_times": 0.05, "steps=0": 0.05, "steps=1": 0.05, "steps=2": 0.1, "steps=3": 0.1, "trimmed": 0.3,
                                       "include_last": 0.15, "exclude_last": 0.15, "activity_launched_in_last_step": 0.15,
                                       "work_after_last_step_start": 0.3},
                     sample_view=view)]
