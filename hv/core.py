"""Core types of the harness: Violation, Campaign, per-worker evidence context.

Nothing here imports hta; the property modules do.
"""
from __future__ import annotations

import hashlib
import json
import os
import time
from collections import Counter
from dataclasses import dataclass, field
from typing import Any, Callable, Dict, List, Optional

VERIF_ROOT = os.path.dirname(os.path.dirname(os.path.abspath(__file__)))


class Violation(Exception):
    """The oracle of a property found a disagreement with the code under test."""

    def __init__(self, check: str, detail: str = "") -> None:
        super().__init__(f"{check}: {detail}")
        self.check = check
        self.detail = detail


class HarnessError(Exception):
    """Something is wrong with the harness/generator/model (exit code 2, never a VIOLATION)."""


def derive_seed(base: int, *parts: Any) -> int:
    h = hashlib.sha256((":".join([str(base)] + [str(p) for p in parts])).encode()).hexdigest()
    return int(h[:12], 16)


def canon(obj: Any) -> str:
    return json.dumps(obj, sort_keys=True, separators=(",", ":"), default=str)


def case_hash(obj: Any) -> str:
    return hashlib.sha1(canon(obj).encode()).hexdigest()[:16]


@dataclass
class CaseInfo:
    """What the oracle reports about one case that passed."""

    nontrivial: bool = False
    classes: List[str] = field(default_factory=list)
    excluded: List[str] = field(default_factory=list)  # patterns avoided by construction in this case


@dataclass
class Campaign:
    """One generated-input search: a Hypothesis strategy producing JSON-able cases and an oracle.

    check(case) -> CaseInfo, raises Violation.  The case must be JSON-serialisable so that a
    failure can be written out as a replay file and re-checked without Hypothesis.
    """

    name: str
    strategy: Any
    check: Callable[[Any], CaseInfo]
    quick: int  # total examples (all shards) in the quick tier
    thorough: int  # total examples (all shards) in the thorough tier
    quick_shards: int = 4
    thorough_shards: int = 16
    # classes the property depends on: the run is declared broken (exit 2) if the measured
    # fraction of cases in such a class falls below the given floor.
    required_classes: Dict[str, float] = field(default_factory=dict)
    stateful: bool = False  # strategy is a RuleBasedStateMachine class factory
    sample_view: Optional[Callable[[Any], Any]] = None  # compact rendering of a case for evidence
    fuzz_runs: int = 0  # thorough tier only: additional libFuzzer executions through Atheris (0 = none), split over 8 processes


class Ctx:
    """Evidence collected by one worker for one campaign."""

    MAX_SAMPLES = 3
    MAX_HASHES = 200000

    def __init__(self) -> None:
        self.evaluations = 0
        self.classes: Counter = Counter()
        self.excluded: Counter = Counter()
        self.nontrivial_hashes: set = set()
        self.samples: List[Any] = []
        self.t0 = time.time()

    def done(self, case: Any, info: CaseInfo, view: Optional[Callable[[Any], Any]] = None) -> None:
        self.evaluations += 1
        for c in set(info.classes):
            self.classes[c] += 1
        for c in info.excluded:
            self.excluded[c] += 1
        if info.nontrivial:
            self.classes["nontrivial"] += 1
            if len(self.nontrivial_hashes) < self.MAX_HASHES:
                self.nontrivial_hashes.add(case_hash(case))
            if len(self.samples) < self.MAX_SAMPLES:
                self.samples.append(view(case) if view else case)

    def to_json(self) -> Dict[str, Any]:
        return {
            "evaluations": self.evaluations,
            "classes": dict(self.classes),
            "excluded": dict(self.excluded),
            "nontrivial_hashes": sorted(self.nontrivial_hashes),
            "samples": self.samples,
        }


def hta_call(what: str, fn: Callable[[], Any]) -> Any:
    """Run a call into the code under test; an exception is a violation of 'the analysis succeeds'."""
    try:
        return fn()
    except Violation:
        raise
    except AssertionError as e:  # HTA asserts its own invariants; a failing one is a finding
        raise Violation(f"raises:{what}:AssertionError", _short_tb(e))
    except Exception as e:  # noqa: BLE001
        raise Violation(f"raises:{what}:{type(e).__name__}", _short_tb(e))


def _short_tb(e: BaseException) -> str:
    import traceback

    tb = traceback.extract_tb(e.__traceback__)
    frames = [f"{os.path.basename(f.filename)}:{f.lineno}:{f.name}" for f in tb[-4:]]
    return f"{type(e).__name__}: {str(e)[:300]} @ {' <- '.join(reversed(frames))}"


def require(cond: bool, check: str, detail: Callable[[], str] | str = "") -> None:
    if not cond:
        raise Violation(check, detail() if callable(detail) else detail)
