"""Name vocabulary.  Every name is tagged with its class *when it is defined*; the reference model
never re-derives a class with HTA's regular expressions, so a changed regex or name list in HTA
shows up as a disagreement instead of being mirrored.

Tags follow the documented meaning: NCCL kernels = communication, Memcpy/Memset/dma = memory,
"...Sync" records = other, everything else on a device stream = computation.
"""
from __future__ import annotations

from typing import Dict, List, Optional

COMPUTATION = "COMPUTATION"
COMMUNICATION = "COMMUNICATION"
MEMORY = "MEMORY"
OTHER = "OTHER"

# name -> (kernel type, short name expected from the trace-diff "short name" view)
# The short form is hand-written: arguments "(...)", template parameters "<...>" and the return
# type (everything before the last blank) removed.
_KERNELS: Dict[str, tuple] = {
    # computation
    "gemm_kernel_a": (COMPUTATION, "gemm_kernel_a"),
    "gemm_kernel_b": (COMPUTATION, "gemm_kernel_b"),
    "k_relu": (COMPUTATION, "k_relu"),
    "k_softmax": (COMPUTATION, "k_softmax"),
    "sm80_xmma_gemm_f16f16": (COMPUTATION, "sm80_xmma_gemm_f16f16"),
    "void at::native::vectorized_elementwise_kernel<4, at::native::AddFunctor<float>>(int, float*)": (
        COMPUTATION, "at::native::vectorized_elementwise_kernel"),
    "void at::native::vectorized_elementwise_kernel<2, at::native::MulFunctor<float>>(int, float*)": (
        COMPUTATION, "at::native::vectorized_elementwise_kernel"),
    "void cutlass::Kernel<cutlass_80_tensorop_s1688gemm_64x64_16x6_tn_align4>(cutlass::Params)": (
        COMPUTATION, "cutlass::Kernel"),
    "fused_adam_kernel": (COMPUTATION, "fused_adam_kernel"),
    "layer_norm_fwd": (COMPUTATION, "layer_norm_fwd"),
    # communication
    "ncclKernel_AllReduce_RING_LL_Sum_float(ncclWorkElem)": (COMMUNICATION, "ncclKernel_AllReduce_RING_LL_Sum_float"),
    "ncclKernel_AllGather_RING_LL_Sum_int8_t(ncclWorkElem)": (COMMUNICATION, "ncclKernel_AllGather_RING_LL_Sum_int8_t"),
    "ncclDevKernel_ReduceScatter_Sum_f32_RING_LL(ncclDevComm*, unsigned long, ncclWork*)": (
        COMMUNICATION, "ncclDevKernel_ReduceScatter_Sum_f32_RING_LL"),
    "ncclKernel_SendRecv": (COMMUNICATION, "ncclKernel_SendRecv"),
    # the naming of NCCL <= 2.10: the collective sits between "nccl" and "Kernel" (HTA's documented pattern is ^nccl.*Kernel)
    "ncclAllReduceRingLLKernel_sum_f32(ncclColl)": (COMMUNICATION, "ncclAllReduceRingLLKernel_sum_f32"),
    # memory
    "Memcpy DtoH (Device -> Pinned)": (MEMORY, "Memcpy DtoH (Device -> Pinned)"),
    "Memcpy HtoD (Pageable -> Device)": (MEMORY, "Memcpy HtoD (Pageable -> Device)"),
    "Memcpy HtoD (Pinned -> Device)": (MEMORY, "Memcpy HtoD (Pinned -> Device)"),
    "Memcpy DtoD (Device -> Device)": (MEMORY, "Memcpy DtoD (Device -> Device)"),
    "Memset (Device)": (MEMORY, "Memset (Device)"),
    "Memset (Unknown)": (MEMORY, "Memset (Unknown)"),
    "dma_copy_engine": (MEMORY, "dma_copy_engine"),
    # other (synchronisation records that sit on a real stream)
    "Stream Sync": (OTHER, "Stream Sync"),
}

COMP_KERNELS: List[str] = [n for n, (t, _) in _KERNELS.items() if t == COMPUTATION]
COMM_KERNELS: List[str] = [n for n, (t, _) in _KERNELS.items() if t == COMMUNICATION]
MEM_KERNELS: List[str] = [n for n, (t, _) in _KERNELS.items() if t == MEMORY]
MEMCPY_KERNELS: List[str] = [n for n in MEM_KERNELS if n.startswith("Memcpy")]
MEMSET_KERNELS: List[str] = [n for n in MEM_KERNELS if n.startswith("Memset")]

# memory-copy class used by the bandwidth counters (C14): the documented series names
MEMCPY_CLASS: Dict[str, str] = {
    "Memcpy DtoH (Device -> Pinned)": "Memcpy DtoH",
    "Memcpy HtoD (Pageable -> Device)": "Memcpy HtoD",
    "Memcpy HtoD (Pinned -> Device)": "Memcpy HtoD",
    "Memcpy DtoD (Device -> Device)": "Memcpy DtoD",
    "Memset (Device)": "Memset",
    "Memset (Unknown)": "Memset",
    "dma_copy_engine": "Memcpy Unknown",
}

# device category of a kernel name
def device_cat(name: str) -> str:
    t = kernel_type(name)
    if name in ("Stream Sync", "Event Sync", "Context Sync"):
        return "cuda_sync"
    if t == MEMORY:
        return "gpu_memset" if name.startswith("Memset") else "gpu_memcpy"
    return "kernel"


def kernel_type(name: str) -> str:
    """Class of a device-activity name.  Generated free-form names (prefix 'k_'/'op_', lower-case
    alphabet) are computation by construction."""
    if name in _KERNELS:
        return _KERNELS[name][0]
    if name in ("Event Sync", "Context Sync"):
        return OTHER
    if name.startswith(("k_", "op_", "u_")):
        return COMPUTATION
    raise KeyError(f"untagged device name {name!r}")


def short_name(name: str) -> str:
    if name in _KERNELS:
        return _KERNELS[name][1]
    if name in _HOST_SHORT:
        return _HOST_SHORT[name]
    return name


# ---- host side ---------------------------------------------------------------------------------
KERNEL_LAUNCHES = ["cudaLaunchKernel", "cudaLaunchKernelExC", "cuLaunchKernel"]
MEMCPY_LAUNCH = "cudaMemcpyAsync"
MEMSET_LAUNCH = "cudaMemsetAsync"
MTIA_LAUNCH = "runFunction - job_prep_and_submit_for_execution"
LAUNCH_NAMES = KERNEL_LAUNCHES + [MEMCPY_LAUNCH, MEMSET_LAUNCH]
# host calls that launch device work but are not in HTA's fixed list of launch names
UNLISTED_LAUNCHES = ["cudaLaunchCooperativeKernel"]
# the launch names the launch-statistics API documents
DOC_KERNEL_LAUNCHES = ["cudaLaunchKernel", "cudaLaunchKernelExC", MTIA_LAUNCH]

BLOCKING_SYNC_CALLS = ["cudaDeviceSynchronize", "cudaStreamSynchronize", "cudaEventSynchronize"]
NONLAUNCH_RUNTIME = ["cudaGetDevice", "cudaFuncGetAttributes", "cudaPeekAtLastError", "cudaStreamIsCapturing",
                     "cudaOccupancyMaxActiveBlocksPerMultiprocessor"]
EVENT_CALLS = ["cudaEventRecord", "cudaStreamWaitEvent", "cudaEventQuery"]

CPU_OPS = ["aten::mm", "aten::add", "aten::addmm", "aten::relu", "aten::linear", "aten::empty", "aten::copy_",
           "aten::to", "aten::_to_copy", "aten::mul", "aten::view", "aten::t", "aten::sum", "aten::zeros",
           "aten::add_", "aten::linear_backward", "Optimizer.step#SGD.step", "c10d::allreduce_",
           "record_param_comms", "nccl:all_reduce"]
AUTOGRAD_OPS = ["autograd::engine::evaluate_function: AddmmBackward0", "autograd::engine::evaluate_function: ReluBackward0",
                "autograd::engine::evaluate_function: torch::autograd::AccumulateGrad", "AddmmBackward0", "ReluBackward0"]
USER_ANNOTATIONS = ["forward", "loss", "## backward ##", "optimizer", "data_loading", "u_block_a", "u_block_b",
                    "attention (flash)"]  # the last one: HTA's short form of this name is the empty string
PYTHON_FRAMES = ["torch/nn/modules/module.py(1501): _call_impl", "train.py(42): train_step", "<built-in method linear of type object>"]
TEMPLATE_OPS = {
    "void my::op<int, float>(char const*, std::vector<int>)": "my::op",
    "at::Tensor my::op<double>(at::Tensor const&)": "my::op",
    "std::enable_if<true, void>::type fancy::launcher<128>(dim3, dim3)": "fancy::launcher",
}
_HOST_SHORT: Dict[str, str] = dict(TEMPLATE_OPS)


def profiler_step(n: int) -> str:
    return f"ProfilerStep#{n}"
