"""C03 Call stack: parent is the innermost enclosing event on the thread (both builders)."""
from __future__ import annotations

from typing import Any, Dict, List, Tuple

from hypothesis import strategies as st

from hv.core import Campaign, CaseInfo, Violation, hta_call, require
from hv.gen.files import scratch_dir, write_case
from hv.gen.spans import max_depth, model_parents, span_family, tie_kinds

ID = "C03"
RULE = ("G-span: recursively generated properly nested span families on one thread (<= 26 events, depth <= 5) with shared "
        "starts/ends, identical spans, back-to-back siblings and zero-duration events at interior/start/end/touching-boundary "
        "positions, arbitrary increasing ids, rows in a drawn permutation; both builders called directly (campaign 'direct') and "
        "through Trace + CallGraph on a written file (campaign 'via_file'). Oracle: parent of every positive event == innermost "
        "container of the model (both directions: every id present exactly once, children lists = inverse of parent, depth = "
        "#ancestors); zero-duration events by validity predicate. Non-trivial: family has >= 1 tie kind (shared start, shared "
        "end, identical, touching) or a zero-duration event on a boundary. Distinct = distinct canonical case JSON.")
ASSUMPTIONS = [
    "spans of one thread are properly nested (by construction)",
    "a zero-duration event may be placed under the virtual root or any event whose closed span contains its instant, as long "
    "as every event whose open span strictly contains the instant is an ancestor (several placements are legal)",
    "identical spans nest in id order (= file order)",
]
TID = 4242
PID = 77


def _frame(case: Dict[str, Any]):
    import pandas as pd

    rows = [case["spans"][i] for i in case["row_order"]]
    df = pd.DataFrame({
        "index": [r[0] for r in rows],
        "ts": [r[1] for r in rows],
        "dur": [r[2] for r in rows],
    })
    df["stream"] = -1
    df["index_correlation"] = -1
    df["pid"] = PID
    df["tid"] = TID
    df["name"] = 0
    df["cat"] = 0
    df = df.set_index("index", drop=False)
    df.index.names = [None]
    return df


def validate(spans: List[List[int]], parent: Dict[int, int], depth: Dict[int, int], children: Dict[int, List[int]],
             who: str) -> None:
    """parent/children use -1 for the virtual root."""
    ids = [s[0] for s in spans]
    by_id = {s[0]: s for s in spans}
    require(sorted(parent) == sorted(ids), f"{who}:every_event_once",
            lambda: f"ids {sorted(ids)} vs nodes {sorted(parent)}")
    # children lists are the inverse of parent
    seen: Dict[int, int] = {}
    for p, ch in children.items():
        for c in ch:
            require(c not in seen, f"{who}:child_listed_twice", lambda: f"{c} under {seen.get(c)} and {p}")
            seen[c] = p
    require(seen == parent, f"{who}:children_inverse_of_parent", lambda: f"children-> {seen} parent-> {parent}")
    # acyclic, depth = number of ancestors
    anc: Dict[int, List[int]] = {}
    for i in ids:
        chain, j, steps = [], i, 0
        while parent[j] != -1:
            j = parent[j]
            chain.append(j)
            steps += 1
            require(steps <= len(ids) and j in parent, f"{who}:parent_cycle_or_dangling", lambda: f"from {i}: {chain}")
        anc[i] = chain
        require(depth[i] == len(chain), f"{who}:depth_is_number_of_ancestors",
                lambda: f"event {i}: depth {depth[i]} but ancestors {chain}")
    # positive events: exact parent
    want = model_parents(spans)
    for i, w in want.items():
        require(parent[i] == w, f"{who}:positive_parent",
                lambda: f"event {by_id[i]}: parent {parent[i]} ({by_id.get(parent[i])}) expected {w} ({by_id.get(w)}); spans={spans}")
    # zero-duration events: validity predicate
    for i, ts, d in spans:
        if d != 0:
            continue
        p = parent[i]
        if p != -1:
            _, pts, pd_ = by_id[p]
            require(pts <= ts <= pts + pd_, f"{who}:zero_parent_contains_instant",
                    lambda: f"zero event {by_id[i]} under {by_id[p]}; spans={spans}")
        if p == -1:
            # "placed beneath an event whose closed span contains its instant": the root is acceptable only when no
            # positive-duration event's closed span contains the instant
            cont = [x for x in spans if x[2] > 0 and x[1] <= ts <= x[1] + x[2]]
            require(not cont, f"{who}:zero_beneath_a_containing_event",
                    lambda: f"zero event {by_id[i]} is at the root although {cont[:3]} contain its instant; spans={spans}")
        for j, jts, jd in spans:
            if jd > 0 and jts < ts < jts + jd:
                require(j in anc[i], f"{who}:zero_under_strict_container",
                        lambda: f"zero event {by_id[i]}: strict container {by_id[j]} is not an ancestor ({anc[i]}); spans={spans}")


def run_builder_a(df) -> Tuple[Dict[int, int], Dict[int, int], Dict[int, List[int]]]:
    from hta.common.call_stack import CallStackGraph, CallStackIdentity

    g = CallStackGraph(df, CallStackIdentity(0, PID, TID))
    nodes = g.get_nodes()
    parent = {int(i): int(n.parent) for i, n in nodes.items() if i >= 0}
    depth = {int(i): int(n.depth) for i, n in nodes.items() if i >= 0}
    children = {int(i): [int(c) for c in n.children] for i, n in nodes.items()}
    dser = g.get_depth()
    for i in parent:
        require(int(dser.loc[i]) == depth[i], "A:depth_series", f"{i}")
    return parent, depth, children


def run_builder_b(df) -> Tuple[Dict[int, int], Dict[int, int], Dict[int, List[int]]]:
    import pandas as pd
    from hta.common.trace_call_stack import CallStackGraph, CallStackIdentity
    from hta.common.trace_symbol_table import TraceSymbolTable

    corr = pd.DataFrame({"cpu_index": pd.Series(dtype="int64"), "gpu_index": pd.Series(dtype="int64")})
    full = df.copy()
    g = CallStackGraph(df, CallStackIdentity(0, PID, TID), corr, full, TraceSymbolTable())
    root = g.root_index
    nodes = g.get_nodes()
    norm = lambda x: -1 if x == root else int(x)  # noqa: E731
    parent = {int(i): norm(n.parent) for i, n in nodes.items() if i >= 0}
    depth = {int(i): int(n.depth) for i, n in nodes.items() if i >= 0}
    children = {norm(i): [int(c) for c in n.children] for i, n in nodes.items()}
    return parent, depth, children


def check_direct(case: Dict[str, Any]) -> CaseInfo:
    from hv.hta_io import quiet

    quiet()
    k = case.get("scale", 1)
    if k != 1:
        case = dict(case, spans=[[i, ts / k, d / k] for i, ts, d in case["spans"]])
    spans = case["spans"]
    df = _frame(case)
    pa, da, ca = hta_call("call_stack.CallStackGraph", lambda: run_builder_a(df.copy()))
    validate(spans, pa, da, ca, "A")
    pb, db, cb = hta_call("trace_call_stack.CallStackGraph", lambda: run_builder_b(df.copy()))
    validate(spans, pb, db, cb, "B")
    kinds = tie_kinds(spans)
    nt = any(k in kinds for k in ("shared_start", "shared_end", "identical", "touching", "zero_at_touching_boundary",
                                  "zero_at_end", "zero_at_start"))
    classes = list(kinds) + [f"depth>={min(max_depth(spans), 3)}"]
    if k != 1:
        classes.append("fractional_times")
    if pa != pb:
        classes.append("builders_differ_on_zero_events")
    return CaseInfo(nontrivial=nt, classes=classes)


# ---- through a written file ----------------------------------------------------------------------
def _file_case(case: Dict[str, Any]) -> Tuple[Dict[str, Any], List[List[int]]]:
    """Events of the family become cpu_op entries of one thread; ids are file positions, so the id
    gaps of the family are realised by interleaved non-complete entries."""
    spans = case["spans"]
    events: List[Dict[str, Any]] = []
    base = spans[0][0]
    pos_of: Dict[int, int] = {}
    # first entry must be a host operator: keep ids relative so that the first span is at position 0
    for i, ts, d in spans:
        want = i - base
        while len(events) < want:
            events.append({"ph": "M", "name": "thread_name", "pid": PID, "tid": TID, "args": {"name": "thread"}})
        pos_of[i] = len(events)
        args: Dict[str, Any] = {"External id": len(events)}
        if case.get("hex_streams") and len(events) % 3 != 1:
            # ROCm traces carry the stream handle of host runtime calls as a hex string; such a value is not a stream number
            args["stream"] = case["hex_streams"][len(events) % len(case["hex_streams"])]
        events.append({"ph": "X", "cat": "cpu_op", "name": f"aten::op{len(events) % 5}", "pid": PID, "tid": TID, "ts": ts,
                       "dur": d, "args": args})
    new_spans = [[pos_of[i], ts, d] for i, ts, d in spans]
    # events of another host thread and GPU kernels that start/end exactly at instants of the family: the call stack of
    # a thread must not depend on what other threads or streams do
    for k, (a, b) in enumerate(case.get("others", [])):
        lo, hi = min(a, b), max(a, b)
        if k % 2 == 0:
            events.append({"ph": "X", "cat": "cpu_op", "name": "aten::other_thread", "pid": PID, "tid": TID + 1, "ts": lo, "dur": hi - lo,
                           "args": {"External id": 900 + k}})
        else:
            events.append({"ph": "X", "cat": "kernel", "name": "gemm_kernel_a", "pid": 3, "tid": 7, "ts": lo, "dur": hi - lo,
                           "args": {"stream": 7, "correlation": 5000 + k}})
    return {"ranks": [{"rank": 0, "events": events}], "fmt": "json"}, new_spans


def _node_maps(nodes: Dict[int, Any], own: set):
    """parent / depth / children of the events in `own` from CallStackNode objects (negative ids = roots -> -1)."""
    norm = lambda x: int(x) if x >= 0 else -1  # noqa: E731
    parent = {int(i): norm(n.parent) for i, n in nodes.items() if int(i) in own}
    depth = {int(i): int(n.depth) for i, n in nodes.items() if int(i) in own}
    children: Dict[int, List[int]] = {-1: []}
    for i, n in nodes.items():
        if int(i) in own:
            children.setdefault(int(i), [])
    for i, p_ in parent.items():
        children.setdefault(p_, []).append(i)
    return parent, depth, children


def check_file(case: Dict[str, Any]) -> CaseInfo:
    from hv.hta_io import load_trace

    fcase, spans = _file_case(case)
    families = {0: spans}
    if case.get("rank1"):
        f1, spans1 = _file_case(case["rank1"])
        f1["ranks"][0]["rank"] = 1
        fcase["ranks"].append(f1["ranks"][0])
        families[1] = spans1
    k = case.get("scale", 1)
    if k != 1:
        from hv.gen.files import scale_to_sub_microsecond

        scale_to_sub_microsecond(fcase, k)  # loaded with HTA_DISABLE_NS_ROUNDING=1: the frames carry fractional times
        families = {r: [[i, ts / k, dd / k] for i, ts, dd in sp] for r, sp in families.items()}
    with scratch_dir() as d:
        files = write_case(fcase, d)
        t = load_trace(files, d)
        from hta.common.trace_call_graph import CallGraph
        from hta.common.call_stack import CallGraph as CallGraphA

        cg = hta_call("trace_call_graph.CallGraph", lambda: CallGraph(t))
        t2 = load_trace(files, d)
        cga = hta_call("call_stack.CallGraph", lambda: CallGraphA(t2))
        for rank, fam in families.items():
            df = t.get_trace(rank)
            own = set(int(i) for i in df.index[(df["tid"] == TID) & (df["stream"] == -1)])
            parent = {int(i): (int(p) if p >= 0 else -1) for i, p in df["parent"].items() if int(i) in own}
            depth = {int(i): int(x) for i, x in df["depth"].items() if int(i) in own}
            children: Dict[int, List[int]] = {-1: []}
            for i, p in parent.items():
                children.setdefault(p, []).append(i)
            validate(fam, parent, depth, children, f"B-file[rank {rank}]")
            # the node objects of the call graph (what get_parent / get_children / traversals use)
            pn, dn, cn = _node_maps(cg.rank_to_nodes[rank], own)
            validate(fam, pn, dn, cn, f"B-nodes[rank {rank}]")
            for csg in cg.get_call_stacks(rank=rank, pid=PID, tid=TID):
                pn, dn, cn = _node_maps(csg.get_nodes(), own)
                validate(fam, pn, dn, cn, f"B-stack-nodes[rank {rank}]")
            # builder A through its own CallGraph (the one critical-path analysis uses)
            df2 = t2.get_trace(rank)
            parent_a = {int(i): int(p) for i, p in df2["parent"].items() if int(i) in own}
            depth_a = {int(i): int(x) for i, x in df2["depth"].items() if int(i) in own}
            children_a: Dict[int, List[int]] = {-1: []}
            for i, p in parent_a.items():
                children_a.setdefault(p, []).append(i)
            validate(fam, parent_a, depth_a, children_a, f"A-file[rank {rank}]")
            for csg in cga.call_stacks:
                if csg.identity.rank == rank and csg.identity.tid == TID and csg.identity.pid == PID:
                    pn = {int(i): int(n.parent) for i, n in csg.get_nodes().items() if int(i) in own}
                    dn = {int(i): int(n.depth) for i, n in csg.get_nodes().items() if int(i) in own}
                    cn2: Dict[int, List[int]] = {-1: []}
                    for i, p in pn.items():
                        cn2.setdefault(p, []).append(i)
                    validate(fam, pn, dn, cn2, f"A-stack-nodes[rank {rank}]")
    kinds = tie_kinds(spans)
    nt = any(k in kinds for k in ("shared_start", "shared_end", "identical", "touching", "zero_at_touching_boundary",
                                  "zero_at_end", "zero_at_start"))
    return CaseInfo(nontrivial=nt, classes=list(kinds) + ["via_file"] + (["other_thread_or_stream_events"] if case.get("others") else [])
                    + (["two_ranks_one_call_graph"] if case.get("rank1") else [])
                    + (["host_events_with_hex_string_stream_arg"] if case.get("hex_streams") else []))


@st.composite
def family_with_other_threads(draw):
    case = draw(span_family(max_events=16))
    instants = sorted({ts for _, ts, _ in case["spans"]} | {ts + d for _, ts, d in case["spans"]})
    n = draw(st.sampled_from([0, 2, 3, 5]))
    case["others"] = [[draw(st.sampled_from(instants)), draw(st.sampled_from(instants + [instants[0] - 1, instants[-1] + 2]))] for _ in range(n)]
    if draw(st.sampled_from([True, False, False, False])):
        case["hex_streams"] = draw(st.sampled_from([["0x0"], ["0x55d0c8a3b2f0"], ["0x0", "0x7f00"]]))
    if draw(st.sampled_from([True, False, False])):
        case["rank1"] = draw(span_family(max_events=10))  # a second rank with its own family: one CallGraph over both ranks
    return case


def view(case):
    return {"spans[id,ts,dur]": case["spans"], "row_order": case["row_order"], "others": case.get("others")}


REQ = {"identical": 0.1, "shared_start": 0.1, "shared_end": 0.15, "touching": 0.15, "zero_interior": 0.04,
       "zero_at_touching_boundary": 0.05, "zero_at_end": 0.05, "zero_at_start": 0.05, "depth>=3": 0.1}


def campaigns(tier: str) -> List[Campaign]:
    return [
        Campaign("direct", span_family(), check_direct, quick=3200, thorough=320000, quick_shards=8, fuzz_runs=80000,
                 required_classes=REQ, sample_view=view),
        Campaign("via_file", family_with_other_threads(), check_file, quick=320, thorough=16000, quick_shards=8,
                 required_classes={"touching": 0.1, "other_thread_or_stream_events": 0.3, "two_ranks_one_call_graph": 0.15, "host_events_with_hex_string_stream_arg": 0.1}, sample_view=view),
    ]
