"""CLI: python -m hv.replay <replay.json>  - re-run the plain oracle on a saved case (no Hypothesis).
exit 0 = passes, 1 = still violates (prints VIOLATION line), 2 = harness problem."""
from __future__ import annotations

import json
import os
import sys

from hv.core import VERIF_ROOT, Violation
from hv.run import find_campaign, load_module


def main() -> int:
    path = sys.argv[1]
    data = json.load(open(path))
    pid = data["property"]
    hs = str(data.get("hashseed", "0"))
    if os.environ.get("PYTHONHASHSEED") != hs:
        # symbol numbering depends on the hash seed: re-run under the seed the case was found with
        os.execvpe(sys.executable, [sys.executable, "-m", "hv.replay", path], dict(os.environ, PYTHONHASHSEED=hs))
    try:
        camp = find_campaign(load_module(pid), "quick", data["campaign"])
        camp.check(data["case"])
    except Violation as v:
        print(f"VIOLATION property={pid} replay={path}")
        print(f"  check={v.check} detail={v.detail[:1500]}")
        return 1
    except Exception as e:  # noqa: BLE001
        print(f"HARNESS-ERROR: {e!r}", file=sys.stderr)
        return 2
    print(f"OK property={pid} replay={path}")
    return 0


if __name__ == "__main__":
    sys.exit(main())
