"""G-sim: causally consistent, well-formed Kineto-style traces.

Hypothesis draws, per rank and per host thread, a *program*: a tree of operators/annotations with gaps
(0 allowed -> touching siblings, shared starts/ends), leaf runtime calls (kernel / memcpy / memset
launches on a chosen stream with a chosen launch delay and kernel duration, blocking stream/device
synchronisation calls, non-launching runtime calls, zero-duration operators) and profiler steps.
A deterministic discrete-event simulation then assigns times: streams are FIFO (kernel start =
max(launch ts + delay, stream free time + gap)), a blocking sync returns no earlier than the end of
the work enqueued on its stream(s) and its device-side record lies inside the call.  Faults are
injected by choice: the launch call or the activity of a pair is dropped, correlation ids stripped.

The result is a plain list of chrome-trace entries per rank; all oracles re-derive what they need
from those entries (hv/model), not from the program.
"""
from __future__ import annotations

from typing import Any, Dict, List, Optional

from hypothesis import strategies as st

from hv.gen import vocab

STREAMS = [7, 20, 24, 28]
EPOCHS = [0, 1000, 10**9, 1_700_000_000_000_000, 100, 32_700, 2**31 - 40]  # 100 / 32700: stamps cross the int8 / int16 range


def pick(draw, seq):
    return draw(st.sampled_from(list(seq)))


# ------------------------------------------------------------------------------------------------
# program strategies
class Opts:
    """Knobs a property sets for its generator."""

    def __init__(self, **kw: Any) -> None:
        self.max_top = 4  # top-level items per step / section
        self.max_depth = 3
        self.streams = 2  # max number of streams
        self.p_zero_op = 1  # weights (out of 10) of leaf kinds
        self.w_launch = 5
        self.w_sync = 2
        self.w_rt = 1
        self.w_op = 4
        self.steps = [0, 1, 2, 3]  # allowed numbers of profiler steps
        self.faults = True
        self.fault_none_weight = 12  # a launch is fault-free with probability w / (w + 3)
        self.memcpy = True
        self.memcpy_weight = 2  # relative to 6 for kernel launches
        self.memcpy_names = None  # restrict the copy kernel names (several full names per copy type)
        self.allow_zero_delay = True
        self.allow_zero_kdur = True
        self.allow_zero_call = True  # zero-duration runtime calls
        self.second_thread = True
        self.autograd = False
        self.launch_names = list(vocab.KERNEL_LAUNCHES) + list(vocab.UNLISTED_LAUNCHES)
        self.device_sync = True
        self.event_sync = False  # cudaEventSynchronize + Event Sync record (stream -1)
        self.cuda_events = False  # cudaEventRecord / cudaStreamWaitEvent / cudaEventSynchronize with wait_on_* args
        self.lead_op = False  # first file entry is a host operator on its own thread at a drawn (possibly late) time
        self.ensure_kernel = False  # every rank has at least one linked kernel launch
        self.kdurs = [1, 2, 3, 4, 7, 12]
        self.backward_ann = False  # main thread carries '## backward ##' annotations (not nested in each other)
        self.force_second_thread = False
        self.first_op_children = False  # the first file entry may enclose other calls
        self.unrounded = False  # one case in five: stamps scaled to quarter microseconds and loaded with HTA_DISABLE_NS_ROUNDING=1
        self.fractional_stamps = False  # one case in four is written with sub-microsecond stamps (as current Kineto does): every
        # complete event [T, T+D] is widened to [T-a, T+D+b], a, b in {0, .25, .5, .75}, so the loader's inward rounding gives T, D back
        self.python_frames = False  # with_stack=True: python_function events wrap operators (host events without graph nodes)
        self.fault_kinds = ["no_launch", "no_kernel", "no_corr"]  # which partner of a launch/activity pair may be missing
        self.backward_ann_ranks = None  # None: every rank may carry '## backward ##' annotations; else only these (generation index)
        self.annotation_names = None  # names of user annotations (default: vocab.USER_ANNOTATIONS); may repeat operator names
        self.early_kernels = False  # some activities are stamped 1-2 us before their launch call starts (clock skew): queue length -1
        self.align_ends = False  # some kernels end exactly when the busiest other stream becomes free (equally heavy alternative paths)
        self.random_pad = True  # one case in eight gets 130-140 metadata entries after the first entry (file positions > 127)
        self.pad_entries = 0  # number of metadata entries inserted right after the first entry (pushes file positions up)
        self.corr_base = None  # None: 1000 * (rank + 1); otherwise correlation ids count up from this base (small ids -> narrow dtypes)
        self.extra_names = 0  # number of extra leaf operators with unique names appended to the main thread (large vocabulary)
        self.rank_vocab = None  # optional list of (op_names, kernel_names), one per rank (cycled)
        self.body_fn = None  # optional (draw, opts, streams) -> items: replaces the top-level body of the main thread
        self.annotations = True
        self.annotation_weight = 1  # out of 6: how often an operator node is a user annotation instead
        self.template = False
        self.min_kernels = 0
        self.kernel_names: Optional[List[str]] = None
        self.op_names: Optional[List[str]] = None
        self.__dict__.update(kw)


SMALL = [0, 0, 0, 1, 1, 2, 3]
DUR = [1, 1, 2, 3, 5, 8]


@st.composite
def leaf_launch(draw, o: Opts, streams: List[int]) -> Dict[str, Any]:
    kind = pick(draw, ["kernel"] * 6 + (["memcpy"] * o.memcpy_weight + ["memset"] if o.memcpy else []))
    if kind == "kernel":
        name = pick(draw, o.launch_names)
        kname = pick(draw, o.kernel_names or (vocab.COMP_KERNELS + vocab.COMM_KERNELS))
    elif kind == "memcpy":
        name, kname = vocab.MEMCPY_LAUNCH, pick(draw, o.memcpy_names or vocab.MEMCPY_KERNELS)
    else:
        name, kname = vocab.MEMSET_LAUNCH, pick(draw, vocab.MEMSET_KERNELS)
    fault = "none"
    if o.faults:
        fault = pick(draw, ["none"] * o.fault_none_weight + list(o.fault_kinds))
    return {"t": "launch", "name": name, "kind": kind, "pre": pick(draw, SMALL),
            "dur": pick(draw, DUR + ([0] if o.allow_zero_call else [])),
            "stream": pick(draw, streams), "delay": pick(draw, ([0, 0] if o.allow_zero_delay else [1]) + [1, 2, 3, 6] + ([-1, -2] if o.early_kernels else [])),
            "kgap": pick(draw, [0, 0, 1, 2, 4]), "kdur": pick(draw, ([0] if o.allow_zero_kdur else []) + list(o.kdurs)),
            "kname": kname, "fault": fault, "bytes": pick(draw, [0, 4, 1024, 4096]),
            "bw": pick(draw, [0.0, 0.5, 1.25, 12.0, 100.0, 12, 3]),  # whole numbers are also written without a decimal point
            "align": bool(o.align_ends and len(streams) > 1 and pick(draw, [False, False, False, True])),
            "host_stream": pick(draw, [None] * 7 + ["0x0", "0x55d0c8a3b2f0"])}


@st.composite
def leaf_sync(draw, o: Opts, streams: List[int]) -> Dict[str, Any]:
    dev = o.device_sync and pick(draw, [False, False, True])
    ev = (not dev) and o.event_sync and pick(draw, [False, False, True])
    return {"t": "sync", "name": "cudaDeviceSynchronize" if dev else ("cudaEventSynchronize" if ev else "cudaStreamSynchronize"),
            "stream": None if dev else pick(draw, streams), "pre": pick(draw, SMALL), "lead": pick(draw, [0, 0, 1, 2]),
            "tail": pick(draw, [0, 0, 1, 2]), "min": pick(draw, [1, 1, 2, 4]),
            "fault": pick(draw, ["none"] * 10 + ["no_record"]) if o.faults else "none"}


@st.composite
def leaf_event(draw, o: Opts, streams: List[int]) -> Dict[str, Any]:
    kind = pick(draw, ["record", "record", "wait", "esync"])
    return {"t": "cuevent", "kind": kind, "stream": pick(draw, streams), "pre": pick(draw, SMALL), "dur": pick(draw, [1, 1, 2]),
            "lead": pick(draw, [0, 0, 1]), "tail": pick(draw, [0, 0, 1])}


@st.composite
def leaf_rt(draw, o: Opts) -> Dict[str, Any]:
    return {"t": "rt", "name": pick(draw, vocab.NONLAUNCH_RUNTIME), "pre": pick(draw, SMALL),
            "dur": pick(draw, DUR + ([0] if o.allow_zero_call else [])), "corr": pick(draw, [True, True, False])}


@st.composite
def op_node(draw, o: Opts, streams: List[int], depth: int, names: Optional[List[str]] = None) -> Dict[str, Any]:
    cat = "cpu_op"
    pool = names or o.op_names or vocab.CPU_OPS
    if o.annotations and depth >= 0 and pick(draw, [True] * o.annotation_weight + [False] * (6 - o.annotation_weight)):
        cat, pool = "user_annotation", (o.annotation_names or [a for a in vocab.USER_ANNOTATIONS if a != "## backward ##"])
    if o.python_frames and cat == "cpu_op" and depth >= 0 and pick(draw, [True, False, False, False, False]):
        cat, pool = "python_function", vocab.PYTHON_FRAMES
    kids = draw(body(o, streams, depth + 1)) if depth < o.max_depth else []
    if cat == "user_annotation" and kids and pick(draw, [False, False, False, True]):
        # an empty annotation nested first inside the annotation (events without graph nodes, nested)
        kids.insert(0, {"t": "op", "name": pick(draw, ["loss", "optimizer"]), "cat": "user_annotation", "pre": 0, "post": 0,
                        "min": pick(draw, [1, 2]), "kids": []})
    return {"t": "op", "name": pick(draw, pool), "cat": cat, "pre": pick(draw, SMALL), "post": pick(draw, SMALL),
            "min": pick(draw, ([0] if o.p_zero_op > 0 else []) + [1, 1, 2, 4] if not kids else [0]), "kids": kids}


@st.composite
def body(draw, o: Opts, streams: List[int], depth: int) -> List[Dict[str, Any]]:
    n = pick(draw, [0, 1, 1, 2, 2, 3] if depth > 0 else list(range(1, o.max_top + 1)))
    out = []
    kinds = ["launch"] * o.w_launch + ["sync"] * o.w_sync + ["rt"] * o.w_rt + ["op"] * o.w_op + ["zero"] * o.p_zero_op + \
        (["cuevent"] * 2 if o.cuda_events else [])
    for _ in range(n):
        k = pick(draw, kinds)
        if k == "launch":
            out.append(draw(leaf_launch(o, streams)))
        elif k == "sync":
            out.append(draw(leaf_sync(o, streams)))
        elif k == "rt":
            out.append(draw(leaf_rt(o)))
        elif k == "cuevent":
            out.append(draw(leaf_event(o, streams)))
        elif k == "zero":
            out.append({"t": "op", "name": pick(draw, vocab.CPU_OPS), "cat": "cpu_op", "pre": pick(draw, SMALL), "post": 0,
                        "min": 0, "kids": []})
        else:
            out.append(draw(op_node(o, streams, depth)))
    if o.align_ends and o.device_sync and o.w_sync and len(streams) > 1 and pick(draw, [True, False, False, False, False]):
        # two streams whose last kernels end at the same instant, then a device-wide synchronisation: two equally heavy
        # paths lead into the end of the synchronising call
        s1, s2 = list(draw(st.permutations(streams)))[:2]
        a = draw(leaf_launch(o, streams))
        a.update({"stream": s1, "kdur": pick(draw, [20, 30, 12]), "kind": "kernel", "name": "cudaLaunchKernel", "fault": "none",
                  "kname": pick(draw, vocab.COMP_KERNELS), "align": False})
        b = draw(leaf_launch(o, streams))
        b.update({"stream": s2, "pre": pick(draw, [0, 1, 2]), "dur": 1, "delay": 1, "kind": "kernel", "name": "cudaLaunchKernel",
                  "fault": "none", "kname": pick(draw, vocab.COMP_KERNELS), "align": True})
        sy = draw(leaf_sync(o, streams))
        sy.update({"name": "cudaDeviceSynchronize", "stream": None, "fault": "none"})
        grp = [a, b, sy]
        if pick(draw, [True, False]):
            # the stream of the later-starting kernel is the one seen first
            c = draw(leaf_launch(o, streams))
            c.update({"stream": s2, "kdur": pick(draw, [1, 2, 4]), "kind": "kernel", "name": "cudaLaunchKernel", "fault": "none",
                      "kname": pick(draw, vocab.COMP_KERNELS), "align": False})
            grp.insert(0, c)
        out += grp
    return out


@st.composite
def thread_program(draw, o: Opts, streams: List[int], with_steps: bool, nsteps: int, first_step: int) -> List[Dict[str, Any]]:
    """Top-level item list of one host thread."""
    def top_body() -> List[Dict[str, Any]]:
        if o.body_fn is not None:
            return o.body_fn(draw, o, streams)
        return draw(body(o, streams, 0))

    def with_backward(kids: List[Dict[str, Any]]) -> List[Dict[str, Any]]:
        if not o.backward_ann or not pick(draw, [True, True, False]):
            return kids
        o_in = Opts(**{**o.__dict__, "backward_ann": False})
        ann = {"t": "op", "name": "## backward ##", "cat": "user_annotation", "pre": pick(draw, SMALL), "post": pick(draw, SMALL),
               "min": pick(draw, [25, 10, 4, 1]), "kids": draw(body(o_in, streams, 1))}
        pos = pick(draw, list(range(len(kids) + 1)))
        return kids[:pos] + [ann] + kids[pos:]

    if not with_steps or nsteps == 0:
        return with_backward(top_body())
    items: List[Dict[str, Any]] = []
    if pick(draw, [True, False]):
        items += top_body()  # work before the first step
    for k in range(nsteps):
        kids = with_backward(top_body())
        items.append({"t": "op", "name": vocab.profiler_step(first_step + k), "cat": "user_annotation",
                      "pre": pick(draw, [0, 0, 1, 3]), "post": pick(draw, SMALL),
                      "min": pick(draw, [30, 10, 1, 1]) if o.autograd else 1, "kids": kids})
    if pick(draw, [True, False]):
        items += top_body()  # work after the last step
    return items


@st.composite
def rank_program(draw, o: Opts, rank: int, nsteps: int, first_step: int) -> Dict[str, Any]:
    ns = pick(draw, list(range(1, o.streams + 1)))
    streams = STREAMS[:ns]
    prog: Dict[str, Any] = {"rank": rank, "start": pick(draw, [0, 0, 3, 10]), "threads": [], "corr_base": o.corr_base,
                            "pad": o.pad_entries}
    # main thread always starts with a plain host operator (first file entry)
    first = {"t": "op", "name": pick(draw, vocab.CPU_OPS), "cat": "cpu_op", "pre": 0, "post": pick(draw, SMALL),
             "min": pick(draw, [1, 2]), "kids": []}
    main = [first]
    if o.first_op_children and pick(draw, [False, False, True]):
        # the first file entry encloses other calls (with gaps); a childless operator follows so that a path of
        # positive weight always exists in the whole-trace window
        first["kids"] = draw(body(o, streams, 1))
        first["min"] = 0
        main.append({"t": "op", "name": pick(draw, vocab.CPU_OPS), "cat": "cpu_op", "pre": pick(draw, SMALL), "post": 0, "min": 1, "kids": []})
    main += draw(thread_program(o, streams, True, nsteps, first_step))
    for i in range(o.extra_names):
        main.append({"t": "op", "name": f"op_uniq_r{rank}_{i}", "cat": "cpu_op", "pre": 0, "post": 0, "min": 1, "kids": []})
    if o.ensure_kernel:
        extra = draw(leaf_launch(o, streams))
        extra["fault"] = "none"
        main.append(extra)
    if o.lead_op and pick(draw, [True, True, False]):
        prog["lead"] = {"ts": pick(draw, [40, 25, 12, 0, 70]), "dur": pick(draw, [1, 3, 0])}
    prog["threads"].append({"tid_off": 0, "start": 0, "items": main})
    if o.second_thread and (o.force_second_thread or pick(draw, [False, False, True])):
        o2 = Opts(**{**o.__dict__, "w_sync": 0, "device_sync": False, "w_launch": o.w_launch if not o.device_sync else 0,
                     "body_fn": None})
        streams2 = STREAMS[ns:ns + 1] or [STREAMS[-1] + 4]
        names = vocab.AUTOGRAD_OPS if o.autograd else None
        items2 = draw(body(o2, streams2, 0)) if names is None else [draw(op_node(o2, streams2, 0, names)) for _ in
                                                                    range(pick(draw, [1, 2, 3]))]
        th2 = {"tid_off": 1, "start": pick(draw, [0, 1, 5, 9] + ([3, 15, 25] if o.autograd else [])), "items": items2}
        if o.autograd:
            # start relative to the first backward annotation / profiler step of the main thread (None = absolute start)
            th2["align"] = pick(draw, [0, 1, None, 3, -2, 0])
        prog["threads"].append(th2)
    return prog


def host_call_cat(name: str) -> str:
    """Kineto's category of a host API call: driver-API calls (cuLaunchKernel, ...) are 'cuda_driver'."""
    return "cuda_driver" if name.startswith("cu") and not name.startswith("cuda") else "cuda_runtime"


# ------------------------------------------------------------------------------------------------
# simulation
class Sim:
    def __init__(self, rank: int, epoch: int, corr_base: Optional[int] = None, pad: int = 0, shared_corr: bool = False) -> None:
        self.pad = pad
        self.rank = rank
        self.epoch = epoch
        self.dev = rank % 8
        self.hpid = 5000 + rank
        self.stream_free: Dict[int, int] = {}
        self.stream_ready: Dict[int, int] = {}  # earliest start imposed on a stream by a cudaStreamWaitEvent
        self.last_record: Optional[Dict[str, int]] = None  # most recent cudaEventRecord: corr id, stream, time its work is done
        # correlation ids are unique within one file only; every rank's counter may start at the same value
        crank = 0 if shared_corr else rank
        self.corr = 1000 * (crank + 1) if corr_base is None else corr_base + 40 * crank
        self.ext = 0
        self.host: Dict[int, List[Dict[str, Any]]] = {}
        self.device: List[Dict[str, Any]] = []
        self.top_slices: Dict[int, List[List[int]]] = {}  # per thread: [start, end) of each top-level subtree in host[tid]

    def _next_corr(self) -> int:
        self.corr += 1
        return self.corr

    def _host(self, tid: int, cat: str, name: str, ts: int, end: int, args: Dict[str, Any]) -> Dict[str, Any]:
        self.ext += 1
        e = {"ph": "X", "cat": cat, "name": name, "pid": self.hpid, "tid": tid, "ts": self.epoch + ts, "dur": end - ts,
             "args": {"External id": self.ext, **args}}
        self.host.setdefault(tid, []).append(e)
        return e

    def _dev(self, cat: str, name: str, tid: int, ts: int, end: int, args: Dict[str, Any]) -> None:
        self.device.append({"ph": "X", "cat": cat, "name": name, "pid": self.dev, "tid": tid, "ts": self.epoch + ts,
                            "dur": end - ts, "args": {"device": self.dev, "context": 1, **args}})

    def run(self, tid: int, node: Dict[str, Any], clock: int) -> int:
        t = node["t"]
        ts = clock + node["pre"]
        if t == "op":
            slot = len(self.host.setdefault(tid, []))
            self.host[tid].append(None)  # reserve the DFS position of the parent
            c = ts
            for k in node["kids"]:
                c = self.run(tid, k, c)
            end = max(c + node["post"], ts + node["min"])
            self.ext += 1
            self.host[tid][slot] = {"ph": "X", "cat": node["cat"], "name": node["name"], "pid": self.hpid, "tid": tid,
                                    "ts": self.epoch + ts, "dur": end - ts, "args": {"External id": self.ext}}
            return end
        if t == "rt":
            args = {"correlation": self._next_corr()} if node["corr"] else {}
            self._host(tid, "cuda_runtime", node["name"], ts, ts + node["dur"], args)
            return ts + node["dur"]
        if t == "launch":
            s = node["stream"]
            end_call = ts + node["dur"]
            corr = self._next_corr()
            k_start = ts + node["delay"]
            if s in self.stream_free:
                k_start = max(k_start, self.stream_free[s] + node["kgap"])
            if node["fault"] != "no_kernel" and s in self.stream_ready:
                k_start = max(k_start, self.stream_ready.pop(s))
            k_end = k_start + node["kdur"]
            if node.get("align"):
                later = [f for st_, f in self.stream_free.items() if st_ != s and f > k_start]
                if later:
                    k_end = max(later)
            fault = node["fault"]
            if fault != "no_launch":
                largs: Dict[str, Any] = {"correlation": corr}
                if node.get("host_stream"):
                    largs["stream"] = node["host_stream"]  # ROCm writes the stream handle of host calls as a hex string
                self._host(tid, host_call_cat(node["name"]), node["name"], ts, end_call, largs)
            if fault != "no_kernel":
                self.stream_free[s] = k_end
                args: Dict[str, Any] = {"stream": s}
                if fault != "no_corr":
                    args["correlation"] = corr
                if node["kind"] != "kernel":
                    args["bytes"] = node["bytes"]
                    args["memory bandwidth (GB/s)"] = node["bw"]
                self._dev(vocab.device_cat(node["kname"]), node["kname"], s, k_start, k_end, args)
            return end_call
        if t == "cuevent":
            s = node["stream"]
            corr = self._next_corr()
            end_call = ts + node["dur"]
            if node["kind"] == "record" or self.last_record is None:
                self._host(tid, "cuda_runtime", "cudaEventRecord", ts, end_call, {"correlation": corr})
                self.last_record = {"corr": corr, "stream": s, "done": self.stream_free.get(s, ts)}
                return end_call
            rec = self.last_record
            if node["kind"] == "wait":
                if s == rec["stream"]:
                    s = s + 1  # wait on another stream than the one the event was recorded on
                self._host(tid, "cuda_runtime", "cudaStreamWaitEvent", ts, end_call, {"correlation": corr})
                self.stream_ready[s] = max(self.stream_ready.get(s, 0), rec["done"])
                self._dev("cuda_sync", "Stream Wait Event", s, ts + node["lead"], ts + node["lead"],
                          {"cuda_sync_kind": "Stream Wait Event", "wait_on_stream": rec["stream"], "wait_on_cuda_event_record_corr_id": rec["corr"],
                           "wait_on_cuda_event_id": 1, "stream": s, "correlation": corr})
                return end_call
            rec_start = ts + node["lead"]
            rec_end = max(rec_start, rec["done"])
            end_call = max(rec_end + node["tail"], end_call)
            self._host(tid, "cuda_runtime", "cudaEventSynchronize", ts, end_call, {"correlation": corr})
            self._dev("cuda_sync", "Event Sync", -1, rec_start, rec_end,
                      {"cuda_sync_kind": "Event Sync", "wait_on_stream": rec["stream"], "wait_on_cuda_event_record_corr_id": rec["corr"],
                       "wait_on_cuda_event_id": 1, "stream": -1, "correlation": corr})
            return end_call
        if t == "sync":
            s = node["stream"]
            corr = self._next_corr()
            waited = [v for st_, v in self.stream_free.items() if s is None or st_ == s]
            rec_start = ts + node["lead"]
            rec_end = max([rec_start] + waited)
            end_call = max(rec_end + node["tail"], ts + node["min"])
            self._host(tid, "cuda_runtime", node["name"], ts, end_call, {"correlation": corr})
            if node["fault"] != "no_record":
                if s is None:
                    self._dev("cuda_sync", "Context Sync", -1, rec_start, rec_end,
                              {"cuda_sync_kind": "Context Sync", "stream": -1, "correlation": corr})
                elif node["name"] == "cudaEventSynchronize":
                    self._dev("cuda_sync", "Event Sync", -1, rec_start, rec_end,
                              {"cuda_sync_kind": "Event Sync", "wait_on_stream": s, "stream": -1, "correlation": corr})
                else:
                    self._dev("cuda_sync", "Stream Sync", s, rec_start, rec_end,
                              {"cuda_sync_kind": "Stream Sync", "stream": s, "correlation": corr})
            return end_call
        raise KeyError(t)


def simulate_rank(prog: Dict[str, Any], epoch: int) -> Sim:
    sim = Sim(prog["rank"], epoch, prog.get("corr_base"), prog.get("pad", 0), prog.get("shared_corr", False))
    if "lead" in prog:
        # tid below every other host tid so that it is sequence 0 of the merge (first file entry)
        sim._host(sim.hpid - 1, "cpu_op", "aten::empty", prog["lead"]["ts"], prog["lead"]["ts"] + prog["lead"]["dur"], {})
    for th in prog["threads"]:
        tid = sim.hpid + th["tid_off"]
        clock = prog["start"] + th["start"]
        if th.get("align") is not None:
            main = [e for evs in sim.host.values() for e in evs if e is not None]
            anchors = [e for e in main if e["name"].startswith("## backward ##")] or [e for e in main if e["name"].startswith("ProfilerStep#")]
            if anchors:
                clock = max(0, anchors[0]["ts"] - epoch + th["align"])
        for item in th["items"]:
            before = len(sim.host.get(tid, []))
            clock = sim.run(tid, item, clock)
            sim.top_slices.setdefault(tid, []).append([before, len(sim.host.get(tid, []))])
    return sim


EXTRA_ENTRIES = [
    {"ph": "M", "name": "process_name", "pid": 0, "tid": 0, "args": {"name": "python"}},
    {"ph": "M", "name": "thread_name", "pid": 0, "tid": 7, "args": {"name": "stream 7"}},
    {"ph": "M", "name": "process_sort_index", "pid": 0, "tid": 0, "args": {"sort_index": 5000000}},
    {"ph": "i", "s": "g", "name": "Iteration Start: PyTorch Profiler", "pid": "Traces", "tid": "Trace PyTorch Profiler", "ts": 0},
    {"ph": "X", "cat": "Trace", "name": "PyTorch Profiler (0)", "pid": "Spans", "tid": "PyTorch Profiler", "ts": 0, "dur": 50,
     "args": {"Op count": 0}},
]


@st.composite
def merge_order(draw, sim: Sim, extras: bool = True) -> List[Dict[str, Any]]:
    """File order: host events of a thread keep their DFS order (parents before children); the
    sequences (threads, device activities, extra non-complete entries) are interleaved by a drawn
    merge; the first entry is the main thread's first host operator."""
    seqs: List[List[Dict[str, Any]]] = []
    for n, (tid, v) in enumerate(sorted(sim.host.items())):
        v = list(v)
        slices = sim.top_slices.get(tid, [])
        # file order of sibling subtrees is arbitrary (Kineto does not promise time order): sometimes permute the
        # top-level subtrees of a thread, each kept contiguous (parents before children); the very first entry stays
        if len(slices) >= 3 and slices[0][0] == 0 and pick(draw, [False, False, True]):
            head = slices[:1] if n == 0 else []
            rest = slices[1:] if n == 0 else slices
            rest = list(draw(st.permutations(rest)))
            covered = sum(b - a for a, b in slices)
            if covered == len(v):
                v = [e for a, b in head + rest for e in v[a:b]]
        seqs.append(v)
    dev = list(sim.device)
    mode = pick(draw, ["by_ts", "shuffled", "shuffled", "device_last"])
    if mode == "shuffled":
        dev = list(draw(st.permutations(dev))) if len(dev) > 1 else dev
    elif mode == "by_ts":
        dev.sort(key=lambda e: e["ts"])
    seqs.append(dev)
    ex: List[Dict[str, Any]] = []
    if extras:
        for _ in range(pick(draw, [0, 1, 2, 3])):
            e = dict(pick(draw, EXTRA_ENTRIES))
            if "ts" in e:
                e["ts"] = sim.epoch + e["ts"]
            ex.append(e)
        # ac2g flow events of linked pairs
        if pick(draw, [True, False]):
            for d in dev[:3]:
                c = d["args"].get("correlation")
                if c is not None:
                    ex.append({"ph": "f", "id": c, "pid": d["pid"], "tid": d["tid"], "ts": d["ts"], "cat": "ac2g", "name": "ac2g",
                               "bp": "e"})
    seqs.append(ex)
    if sim.pad:
        pads = [{"ph": "M", "name": "thread_name", "pid": sim.hpid, "tid": sim.hpid + 100 + i, "args": {"name": f"pt_autograd_{i}"}}
                for i in range(sim.pad)]
    else:
        pads = []
    if mode == "device_last":
        out = [e for s in seqs for e in s]
    else:
        labels = [i for i, s in enumerate(seqs) for _ in s]
        labels = list(draw(st.permutations(labels))) if len(labels) > 1 else labels
        if 0 in labels:
            labels.remove(0)
            labels.insert(0, 0)
        pos = [0] * len(seqs)
        out = []
        for lb in labels:
            out.append(seqs[lb][pos[lb]])
            pos[lb] += 1
    if pads:
        out = out[:1] + pads + out[1:]
    return out


@st.composite
def sim_case(draw, o: Optional[Opts] = None, max_ranks: int = 2, same_steps: bool = True,
             extras_trace_span: bool = False, nranks_choices: Optional[List[int]] = None, renumber: bool = True) -> Dict[str, Any]:
    o = o or Opts()
    nranks = pick(draw, [1, 1, 1, 2, 2, 3][: 3 + max(0, max_ranks - 1) * 2][: 6]) if max_ranks > 1 else 1
    nranks = min(nranks, max_ranks)
    if nranks_choices:
        nranks = pick(draw, nranks_choices)
    epoch = pick(draw, EPOCHS)
    nsteps = pick(draw, o.steps)
    first_step = pick(draw, [0, 3, 100, 8, 98])  # 8 and 98: step numbers cross a digit-count boundary (9 -> 10, 99 -> 100)
    ranks = []
    pad_case = o.random_pad and o.pad_entries == 0 and pick(draw, [False] * 7 + [True])
    # correlation ids: usually 1000*(rank+1)+k; sometimes small or just below a dtype boundary (narrow column dtypes)
    corr_base = o.corr_base if o.corr_base is not None or not o.random_pad else pick(draw, [None] * 5 + [0, 100, 32_700])
    shared_corr = nranks > 1 and o.random_pad and pick(draw, [True, False, False])
    for r in range(nranks):
        o_r = o
        if pad_case:
            o_r = Opts(**{**o.__dict__, "pad_entries": pick(draw, [130, 140])})
        if corr_base is not None:
            o_r = Opts(**{**o_r.__dict__, "corr_base": corr_base})
        if o.backward_ann_ranks is not None:
            o_r = Opts(**{**o_r.__dict__, "backward_ann": o.backward_ann and r in o.backward_ann_ranks})
        if o.rank_vocab:
            ops_r, kern_r = o.rank_vocab[r % len(o.rank_vocab)]
            o_r = Opts(**{**o_r.__dict__, "op_names": ops_r, "kernel_names": kern_r})
        prog = draw(rank_program(o_r, r, nsteps, first_step))
        prog["shared_corr"] = shared_corr
        sim = simulate_rank(prog, epoch)
        events = draw(merge_order(sim))
        if extras_trace_span:  # exactly one profiler span entry, as Kineto writes it
            spans = [e for e in events if e.get("cat") == "Trace"]
            for e in spans[1:]:
                events.remove(e)
            if not spans:
                span = dict(EXTRA_ENTRIES[-1])
                span["ts"] = epoch
                events.append(span)
        ranks.append({"rank": r, "events": events})
    fractional = bool(o.fractional_stamps and pick(draw, [True, False, False, False]))
    if fractional:
        for rd in ranks:
            first = True
            for e in rd["events"]:
                if e.get("ph") == "X" and e.get("dur") is not None and isinstance(e.get("ts"), int):
                    a = 0.25 if first else pick(draw, [0, 0.25, 0.5, 0.75])
                    b = pick(draw, [0, 0.25, 0.5, 0.75])
                    e["ts"], e["dur"] = e["ts"] - a, e["dur"] + a + b
                    first = False
            rd["events"][0]["_frac"] = True
    if renumber:
        from hv.gen.intervals import renumber_ranks

        renumber_ranks(draw, ranks)  # the loaded ranks need not be 0..n-1
    from hv.hta_io import prelude_strategy

    case = {"ranks": ranks, "fmt": pick(draw, ["json", "gz"]), "mp": pick(draw, [False] * 5 + [True]),
            "prelude": draw(prelude_strategy()), "shared_corr": bool(shared_corr), "fractional_stamps": fractional}
    if o.unrounded and not fractional and pick(draw, [True, False, False, False, False]):
        from hv.gen.files import scale_to_sub_microsecond

        scale_to_sub_microsecond(case)
    return case
