"""G-iv: free-form device activities (C04, C05, C07).

1-14 intervals on 1-4 streams per rank, 1-3 ranks.  Overlap *within* a stream is allowed (those
properties do not exclude it).  Coordinates are small integers drawn mostly from a handful of anchor
instants so that ties (touching, nested, identical, shared start/end, zero length) are the norm.
"""
from __future__ import annotations

from typing import Any, Dict, List

from hypothesis import strategies as st

from hv.gen import vocab

STREAM_IDS = [7, 13, 20, 24]
EPOCHS = [0, 1000, 10**9, 1_700_000_000_000_000, 100, 32_700, 2**31 - 40]


def host_first_event(rank: int, ts: int, dur: int) -> Dict[str, Any]:
    return {"ph": "X", "cat": "cpu_op", "name": "aten::empty", "pid": 1000 + rank, "tid": 1000 + rank,
            "ts": ts, "dur": dur, "args": {"External id": 1}}


def activity(name: str, rank: int, stream: int, ts: int, dur: int, corr: int | None, extra: Dict[str, Any] | None = None):
    args: Dict[str, Any] = {"device": rank % 8, "context": 1, "stream": stream}
    if corr is not None:
        args["correlation"] = corr
    if extra:
        args.update(extra)
    return {"ph": "X", "cat": vocab.device_cat(name), "name": name, "pid": rank % 8, "tid": stream,
            "ts": ts, "dur": dur, "args": args}


@st.composite
def kernel_name(draw, weights=(5, 3, 2, 1), free_form: bool = True) -> str:
    kind = draw(st.sampled_from(["comp"] * weights[0] + ["comm"] * weights[1] + ["mem"] * weights[2] + ["other"] * weights[3]))
    if kind == "comp":
        if free_form and draw(st.integers(0, 3)) == 0:
            return "k_" + draw(st.text(alphabet="abcxyz_", min_size=1, max_size=4))
        return draw(st.sampled_from(vocab.COMP_KERNELS))
    if kind == "comm":
        return draw(st.sampled_from(vocab.COMM_KERNELS))
    if kind == "mem":
        return draw(st.sampled_from(vocab.MEM_KERNELS))
    return "Stream Sync"


@st.composite
def rank_activities(draw, rank: int, epoch: int, weights=(5, 3, 2, 1), max_n: int = 14, min_n: int = 1,
                    force_comm: bool = False) -> Dict[str, Any]:
    n = draw(st.integers(min_n, max_n))
    nstreams = draw(st.integers(1, 4))
    streams = STREAM_IDS[:nstreams]
    if draw(st.sampled_from([False, False, False, False, True])):
        streams = [0] + streams[1:]  # the legacy default stream: id 0 is a stream like any other (only -1 means "host")
    anchors = draw(st.lists(st.integers(0, 40), min_size=2, max_size=6, unique=True))
    point = st.one_of(st.sampled_from(anchors), st.sampled_from(anchors), st.integers(0, 45))
    events: List[Dict[str, Any]] = []
    h_ts = draw(point)
    events.append(host_first_event(rank, epoch + h_ts, draw(st.integers(0, 30))))
    # a few non-complete entries, as Kineto writes them
    if draw(st.booleans()):
        events.append({"ph": "M", "name": "process_name", "pid": rank % 8, "tid": 0, "args": {"name": "python"}})
    corr = 100
    for i in range(n):
        name = draw(kernel_name(weights))
        if force_comm and i == 0:
            name = draw(st.sampled_from(vocab.COMM_KERNELS))
        a = draw(point)
        mode = draw(st.integers(0, 5))
        if mode == 0:
            d = 0
        elif mode <= 3:
            b = draw(point)
            a, b = min(a, b), max(a, b)
            d = b - a
        else:
            d = draw(st.integers(1, 12))
        corr += 1
        events.append(activity(name, rank, draw(st.sampled_from(streams)), epoch + a, d,
                               corr if draw(st.integers(0, 4)) else None))
    if draw(st.integers(0, 5)) == 0:
        # one activity three orders of magnitude longer than the rest: the others' shares fall below the rounding of percentages
        acts = [e for e in events if e.get("ph") == "X" and "stream" in e.get("args", {})]
        draw(st.sampled_from(acts))["dur"] += draw(st.sampled_from([12_000, 3_000, 40_000]))
    if draw(st.integers(0, 3)) == 0:
        events.append({"ph": "i", "s": "g", "name": "Iteration Start: PyTorch Profiler", "pid": "Traces", "tid": "Trace PyTorch Profiler",
                       "ts": epoch})
    return {"rank": rank, "events": events}


@st.composite
def interval_case(draw, weights=(5, 3, 2, 1), max_ranks: int = 3, max_n: int = 14, min_n: int = 1,
                  force_comm: bool = False, unrounded: bool = False) -> Dict[str, Any]:
    nranks = draw(st.sampled_from([1, 1, 2, 3][: max(1, max_ranks + 1)]))
    nranks = min(nranks, max_ranks)
    epoch = draw(st.sampled_from(EPOCHS))
    ranks = [draw(rank_activities(r, epoch + (draw(st.integers(0, 20)) if r else 0), weights, max_n, min_n, force_comm))
             for r in range(nranks)]
    renumber_ranks(draw, ranks)
    from hv.hta_io import prelude_strategy

    case = {"ranks": ranks, "fmt": draw(st.sampled_from(["json", "gz"])), "mp": draw(st.integers(0, 5)) == 0,
            "prelude": draw(prelude_strategy())}
    if any(isinstance(e.get("args"), dict) and e["args"].get("stream") == 0 for rd in ranks for e in rd["events"]):
        case["stream_0"] = True
    if unrounded and draw(st.sampled_from([False, False, False, True])):
        from hv.gen.files import scale_to_sub_microsecond

        scale_to_sub_microsecond(case)  # quarter-microsecond stamps, loaded with HTA_DISABLE_NS_ROUNDING=1
    return case


RANK_ID_PATTERNS = [None, None, None, [1, 2, 3, 4], [3, 0, 7, 1], [2, 1, 0, 5]]


def renumber_ranks(draw, ranks: List[Dict[str, Any]]) -> None:
    """The ranks a user loads need not be 0..n-1 (a subset of a job's ranks, in any dict order)."""
    ids = draw(st.sampled_from(RANK_ID_PATTERNS))
    if ids is not None:
        for rd, new in zip(ranks, ids):
            rd["rank"] = new


def device_intervals(events: List[Dict[str, Any]]):
    """(name, stream, ts, end) of every complete entry that sits on a device stream."""
    from hv.model.raw import complete_rows

    return [(r.name, r.stream, r.ts, r.ts + r.dur) for r in complete_rows(events) if r.stream != -1]


def tie_classes(ivs) -> List[str]:
    out = set()
    for i, (_, _, s1, e1) in enumerate(ivs):
        if s1 == e1:
            out.add("zero_length")
        for j, (_, _, s2, e2) in enumerate(ivs):
            if i >= j:
                continue
            if (s1, e1) == (s2, e2):
                out.add("identical")
            elif s1 == s2:
                out.add("shared_start")
            elif e1 == e2:
                out.add("shared_end")
            if e1 == s2 or e2 == s1:
                out.add("touching")
            if (s1 < s2 and e2 < e1) or (s2 < s1 and e1 < e2):
                out.add("nested")
            if s1 < s2 < e1 < e2 or s2 < s1 < e2 < e1:
                out.add("partial_overlap")
    return sorted(out)
