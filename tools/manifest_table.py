add("C04", "property-based testing (Hypothesis) against a sweep-line reference model",
    "Generated-input search: interval arrangements with frequent ties on 1-4 streams and 1-3 ranks are written as trace files, loaded through TraceAnalysis and compared exactly (integers) with a sweep-line model of span/union/compute measures; percentages to 0.005.",
    "Trusts the reference model (hv/model/intervals.py) and the name->kernel-type tags of hv/gen/vocab.py; bounded to <= 14 activities per rank; JSON parser backend only.",
    "DESIGN.md §5 C04")
