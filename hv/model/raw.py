"""Reference model over the raw chrome-trace entries of one file.  Pure Python, imports nothing
from hta."""
from __future__ import annotations

from dataclasses import dataclass, field
from typing import Any, Dict, List, Optional


@dataclass
class Row:
    id: int  # position in the file's event list
    name: str
    cat: str
    pid: Any
    tid: Any
    ts: Any
    dur: Any
    stream: int
    correlation: int
    args: Dict[str, Any] = field(default_factory=dict)

    @property
    def end(self):
        return self.ts + self.dur


def _stream_of(args: Dict[str, Any]) -> int:
    if not isinstance(args, dict) or "stream" not in args:
        return -1
    try:
        return int(args["stream"])
    except ValueError:
        return -1


def complete_rows(events: List[Dict[str, Any]]) -> List[Row]:
    """One row per complete event: an entry that carries a duration and a category other than
    the profiler's own 'Trace' span.  Identified by its position in the list."""
    rows: List[Row] = []
    # files written with sub-microsecond stamps (generator marker "_frac", never written to the file): the loader rounds every
    # event inward - start up, end down (that rule itself is C01's subject) - and every analysis works on the rounded events
    frac = any(e.get("_frac") for e in events)
    for i, e in enumerate(events):
        if e.get("dur") is None or e.get("cat") is None:
            continue
        if e["cat"] == "Trace":
            continue
        args = e.get("args") if isinstance(e.get("args"), dict) else {}
        ts, dur = e.get("ts"), e["dur"]
        if frac and ts is not None:
            import math

            end = math.floor(ts + dur)
            ts = math.ceil(ts)
            dur = end - ts
        rows.append(Row(i, e.get("name"), e["cat"], e.get("pid"), e.get("tid"), ts, dur,
                        _stream_of(args), args.get("correlation", -1), args))
    return rows


SYNC_ON_HOST_STREAM = ("Event Sync", "Context Sync")


def is_device(r: Row) -> bool:
    """Device side of the correlation pairing: an activity on a stream with a correlation id, or
    one of the two synchronisation records that sit on stream -1."""
    return (r.stream >= 0 and r.correlation >= 0) or r.name in SYNC_ON_HOST_STREAM


def links(rows: List[Row]) -> Dict[int, int]:
    """id -> linked id / 0 (partner absent) / -1 (no correlation id)."""
    by_corr_dev: Dict[int, List[Row]] = {}
    by_corr_host: Dict[int, List[Row]] = {}
    for r in rows:
        if r.correlation == -1:
            continue
        (by_corr_dev if is_device(r) else by_corr_host).setdefault(r.correlation, []).append(r)
    out: Dict[int, int] = {}
    for r in rows:
        if r.correlation == -1:
            out[r.id] = -1
            continue
        other = (by_corr_host if is_device(r) else by_corr_dev).get(r.correlation, [])
        out[r.id] = other[0].id if len(other) == 1 else (0 if not other else None)
    return out
