"""C15 Launch statistics list every launch/activity pair with exact durations and delay."""
from __future__ import annotations

from collections import Counter
from typing import Any, Dict, List

from hypothesis import strategies as st

from hv.core import Campaign, CaseInfo, hta_call, require
from hv.gen import vocab
from hv.gen.files import scratch_dir, write_case
from hv.gen.kineto_sim import Opts, sim_case
from hv.model.raw import complete_rows, is_device, links
from hv.model.trace import kept_after_load

ID = "C15"
RULE = ("G-sim traces (1-3 ranks, launches with the documented launch names cudaLaunchKernel / cudaLaunchKernelExC / MTIA "
        "launch / cudaMemcpyAsync / cudaMemsetAsync, zero and non-zero launch delays incl. kernels that start before their "
        "launch call returns, synchronisation calls linked to device records, fault injection) x include_memory_events x "
        "requested rank subset. Oracle: multiset of (correlation, cpu_duration, gpu_duration, max(0, activity start - launch "
        "end)) over the model's linked launch/activity pairs == rows returned, per requested rank. Non-trivial: some rank has "
        ">= 1 clipped (negative raw) delay, >= 1 positive delay and >= 1 memory launch. Distinct = distinct canonical case JSON.")
ASSUMPTIONS = [
    "with >= 2 profiler steps the pairs are those whose launch call the load keeps (C12's trimming model)",
    "kernel launches = the names the API documents (cudaLaunchKernel, cudaLaunchKernelExC, the MTIA launch)",
    "correlation ids unique per pair within one file (ranks may use the same id range)",
]
KERNEL_LAUNCH = set(vocab.DOC_KERNEL_LAUNCHES)
MEM_LAUNCH = {vocab.MEMCPY_LAUNCH, vocab.MEMSET_LAUNCH}


def expected(events, include_memory: bool) -> Counter:
    rows = complete_rows(events)
    lk = links(rows)
    keep, _ = kept_after_load(rows, include_last=False)  # >= 2 profiler steps: only what the load keeps is analysed (C12)
    rows = [r for r in rows if r.id in keep]
    by_id = {r.id: r for r in rows}
    names = KERNEL_LAUNCH | (MEM_LAUNCH if include_memory else set())
    out: Counter = Counter()
    for r in rows:
        if r.stream == -1 and not is_device(r) and r.name in names and lk[r.id] > 0:
            g = by_id[lk[r.id]]
            if g.stream == -1:
                continue
            out[(r.correlation, r.dur, g.dur, max(0, g.ts - r.ts - r.dur))] += 1
    return out


def check(case: Dict[str, Any]) -> CaseInfo:
    from hv.hta_io import load_analysis

    p = case["params"]
    with scratch_dir() as d:
        files = write_case(case, d)
        ta = load_analysis(files, d, mp=case.get("mp", False), prelude=case.get("prelude"))
        res = hta_call("get_cuda_kernel_launch_stats", lambda: ta.get_cuda_kernel_launch_stats(
            ranks=p["ranks"], include_memory_events=p["memory"], visualize=False))
    want_ranks = p["ranks"] if p["ranks"] else [0]
    require(sorted(res) == sorted(set(want_ranks)), "ranks:requested", lambda: f"{sorted(res)} vs {want_ranks}")
    classes: List[str] = []
    nontrivial = False
    for rd in case["ranks"]:
        if rd["rank"] not in want_ranks:
            continue
        want = expected(rd["events"], p["memory"])
        df = res[rd["rank"]]
        require(list(df.columns) == ["correlation", "cpu_duration", "gpu_duration", "launch_delay"], "columns", lambda: str(list(df.columns)))
        require(not df.isna().any().any(), "rows:nan", lambda: df.to_string())
        got = Counter((int(a), float(b), float(c), float(e)) for a, b, c, e in df.itertuples(index=False))
        require(got == want, "rows:multiset",
                lambda: f"rank {rd['rank']} memory={p['memory']}: missing {sorted((want - got).elements())} extra {sorted((got - want).elements())}")
        rows = complete_rows(rd["events"])
        if len(kept_after_load(rows, include_last=False)[0]) < len(rows):
            classes.append("trimmed_by_last_profiler_step")
        lk = links(rows)
        by_id = {r.id: r for r in rows}
        raw = [by_id[lk[r.id]].ts - r.ts - r.dur for r in rows if r.stream == -1 and not is_device(r)
               and r.name in (KERNEL_LAUNCH | MEM_LAUNCH) and lk[r.id] > 0]
        mem = any(r.name in MEM_LAUNCH and lk[r.id] > 0 for r in rows)
        if any(x < 0 for x in raw):
            classes.append("clipped_delay")
        if any(x > 0 for x in raw):
            classes.append("positive_delay")
        if mem:
            classes.append("memory_launch")
        if any(r.name in ("cudaStreamSynchronize", "cudaDeviceSynchronize") and lk[r.id] > 0 for r in rows):
            classes.append("linked_non_launch_call")
        if any(r.name == vocab.MTIA_LAUNCH for r in rows):
            classes.append("mtia_launch")
        if any(x < 0 for x in raw) and any(x > 0 for x in raw) and mem:
            nontrivial = True
        if not want:
            classes.append("empty_result")
    classes.append("with_memory" if p["memory"] else "without_memory")
    if len(want_ranks) > 1:
        classes.append("multi_rank_request")
        if case.get("shared_corr"):
            classes.append("multi_rank_request_same_correlation_ids")
    return CaseInfo(nontrivial=nontrivial, classes=classes)


@st.composite
def c15_case(draw):
    o = Opts(fractional_stamps=True, unrounded=True, steps=[0, 1, 2, 3], launch_names=vocab.DOC_KERNEL_LAUNCHES, w_launch=7, w_sync=2, max_top=5, early_kernels=True)
    case = draw(sim_case(o, max_ranks=3))
    all_ranks = [r["rank"] for r in case["ranks"]]
    mode = draw(st.sampled_from(["none", "empty", "subset", "subset", "all"] if 0 in all_ranks else ["subset", "all", "subset"]))  # None / [] mean rank 0
    ranks = None if mode == "none" else [] if mode == "empty" else list(all_ranks) if mode == "all" else \
        list(draw(st.permutations(all_ranks)))[: draw(st.sampled_from([1, 2, 3]))]
    case["params"] = {"memory": draw(st.sampled_from([True, False])), "ranks": ranks}
    return case


def view(case):
    return {"params": case["params"], "ranks": [
        {"rank": r["rank"], "rows[id,name,ts,dur,stream,corr]": [[x.id, x.name, x.ts, x.dur, x.stream, x.correlation]
                                                                for x in complete_rows(r["events"])]} for r in case["ranks"][:1]]}


def campaigns(tier: str) -> List[Campaign]:
    return [Campaign("launch_stats", c15_case(), check, quick=480, thorough=24000, quick_shards=8,
                     required_classes={"unrounded_fractional_times": 0.05, "clipped_delay": 0.2, "positive_delay": 0.2, "memory_launch": 0.2,
                                       "linked_non_launch_call": 0.1, "without_memory": 0.1, "mtia_launch": 0.05,
                                       "multi_rank_request_same_correlation_ids": 0.015, "trimmed_by_last_profiler_step": 0.15},
                     sample_view=view)]
