"""C09 The reported critical path is a maximum-weight path of the graph."""
from __future__ import annotations

from typing import Any, Dict, List

from hypothesis import strategies as st

from hv.core import Campaign, CaseInfo, hta_call, require
from hv.gen.files import scratch_dir
from hv.props.cp_common import CPRun, cp_case, edge_objects, topo_longest_path, view

ID = "C09"
RULE = ("Graphs built from the C08 case family, plus re-weighted copies: a drawn subset of edges gets drawn non-negative weights "
        "through graph.edges[u, v]['weight'] (the documented what-if workflow) and critical_path() is recomputed, up to two "
        "rounds. Oracle: the path is a sequence of graph edges; its weight == maximum over all paths by an own topological "
        "longest-path pass (not networkx); on the unmodified graph weight <= makespan (max node ts - min node ts); "
        "critical_path_events_set == events of the path nodes; critical_path_edges_set == edge objects of consecutive node "
        "pairs (recomputed, not accumulated, after re-weighting). Non-trivial: a re-weighting that changes the path, or an "
        "unmodified graph in which both host-only and device-containing maximal candidates exist. Distinct = distinct canonical "
        "case JSON.")
ASSUMPTIONS = [
    "same input domain as C08",
    "re-weighting uses non-negative integer weights (the what-if workflow scales edge durations)",
]


def check_path(g, original: bool, tag: str) -> Dict[str, Any]:
    nodes = g.node_list
    path = [int(n) for n in g.critical_path_nodes]
    edges = edge_objects(g)
    wmap = {(u, v): float(w) for u, v, _, w in edges}
    omap = {(u, v): e for u, v, e, _ in edges}
    require(len(path) >= 2, f"{tag}:path_has_edges", lambda: str(path))
    require(len(set(path)) == len(path), f"{tag}:path_simple", lambda: str(path))
    total = 0.0
    for u, v in zip(path, path[1:]):
        require((u, v) in wmap, f"{tag}:path_connected", lambda: f"{u}->{v} is not an edge; path {path}")
        total += wmap[(u, v)]
    best, acyclic = topo_longest_path(list(g.nodes), [(u, v, w) for (u, v), w in wmap.items()])
    require(acyclic, f"{tag}:acyclic", "")
    require(abs(total - best) < 1e-9, f"{tag}:maximum_weight", lambda: f"path weight {total}, maximum {best}; path {path}")
    if original:
        used = [nodes[n] for n in g.nodes]
        makespan = max(n.ts for n in used) - min(n.ts for n in used)
        require(total <= makespan + 1e-9, f"{tag}:weight_within_makespan", lambda: f"{total} > {makespan}")
    want_events = {int(nodes[n].ev_idx) for n in path}
    got_events = {int(x) for x in g.critical_path_events_set}
    require(got_events == want_events, f"{tag}:events_set", lambda: f"{sorted(got_events)} vs {sorted(want_events)}")
    want_edges = {omap[(u, v)] for u, v in zip(path, path[1:])}
    require(set(g.critical_path_edges_set) == want_edges and len(g.critical_path_edges_set) == len(path) - 1, f"{tag}:edges_set",
            lambda: f"{len(g.critical_path_edges_set)} edges in set vs {len(path) - 1} on the path")
    return {"path": path, "weight": total}


def check(case: Dict[str, Any]) -> CaseInfo:
    classes: List[str] = []
    with scratch_dir() as d:
        run = CPRun(case, d)
        g = run.graph
        first = check_path(g, True, "original")
        w = run.window
        nodes = g.node_list
        on_dev = any(w.analysed[int(nodes[n].ev_idx)].stream != -1 for n in first["path"])
        classes.append("path_through_device" if on_dev else "path_host_only")
        edges = sorted((u, v) for u, v in g.edges)
        nontrivial = False
        prev = first
        for rnd, rw in enumerate(case["reweight"]):
            if not edges:
                break
            for idx, wt in rw:
                u, v = edges[idx % len(edges)]
                if isinstance(wt, list):  # ["swap", j]: exchange the weights of two edges (node count, edge count and total weight stay)
                    u2, v2 = edges[wt[1] % len(edges)]
                    g.edges[u, v]["weight"], g.edges[u2, v2]["weight"] = g.edges[u2, v2]["weight"], g.edges[u, v]["weight"]
                else:
                    g.edges[u, v]["weight"] = wt
            if rw and all(isinstance(wt, list) for _, wt in rw):
                classes.append("reweighting_by_swaps_only")
            best, _ = topo_longest_path(list(g.nodes), [(u, v, float(g.edges[u, v]["weight"])) for u, v in g.edges])
            if best <= 0:
                classes.append("degenerate_all_zero_graph_skipped")  # no path of positive weight: outside the domain
                break
            want_w = {(u, v): float(g.edges[u, v]["weight"]) for u, v in g.edges}
            ok = hta_call("critical_path(reweighted)", lambda: g.critical_path())
            require(ok is True, "reweighted:succeeds", str(ok))
            got_w = {(u, v): float(g.edges[u, v]["weight"]) for u, v in g.edges}
            changed = {k: (want_w[k], got_w[k]) for k in want_w if want_w[k] != got_w[k]}
            require(not changed, "reweighted:weights_preserved_by_recomputation", lambda: f"{list(changed.items())[:5]}")
            cur = check_path(g, False, f"reweighted{rnd}")
            classes.append("reweighted")
            if cur["path"] != prev["path"]:
                classes.append("reweighting_changes_path")
                nontrivial = True
            prev = cur
        # both host-only and device-containing maximal candidates in the unmodified graph
        if on_dev and any(w.analysed[int(nodes[n].ev_idx)].stream == -1 for n in first["path"]):
            classes.append("path_mixes_host_and_device")
    return CaseInfo(nontrivial=nontrivial, classes=classes)


@st.composite
def c09_case(draw):
    case = draw(cp_case())
    rounds = draw(st.sampled_from([1, 2, 2, 0]))
    case["reweight"] = [[[draw(st.integers(0, 200)), draw(st.sampled_from([0, 0, 1, 5, 50, 500]))]
                         for _ in range(draw(st.sampled_from([1, 2, 4, 8])))] for _ in range(rounds)]
    # rounds that only move weight around (the weights of two edges exchanged): the graph keeps its node count, edge count
    # and total weight while the optimum moves
    for r in range(rounds):
        if draw(st.sampled_from([True, False, False])):
            case["reweight"][r] = [[draw(st.integers(0, 200)), ["swap", draw(st.integers(0, 200))]]
                                   for _ in range(draw(st.sampled_from([1, 2, 3, 6])))]
    return case


def campaigns(tier: str) -> List[Campaign]:
    return [Campaign("path", c09_case(), check, quick=480, thorough=11200, quick_shards=8,
                     required_classes={"reweighted": 0.5, "reweighting_changes_path": 0.1, "path_through_device": 0.2,
                                       "path_host_only": 0.1},
                     sample_view=lambda c: {**view(c), "reweight": c["reweight"]})]
