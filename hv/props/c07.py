"""C07 Communication/computation overlap is the exact time ratio."""
from __future__ import annotations

import math
from typing import Any, Dict, List

from hv.core import Campaign, CaseInfo, hta_call, require
from hv.gen import vocab
from hv.gen.files import scratch_dir, write_case
from hv.gen.intervals import device_intervals, interval_case, tie_classes
from hv.model.intervals import combo_measure, union_measure

ID = "C07"
RULE = ("G-iv with >= 1 communication kernel on rank 0 (comm/comp-heavy name mix): 1-3 ranks, 1-14 activities, 1-4 streams, "
        "anchor-based integer coordinates; oracle = 100*|U comm ^ U comp| / |U comm| by sweep over all endpoints, compared "
        "to 2 decimals (tolerance 0.005). Non-trivial: a rank has both communication and computation kernels of positive "
        "length that share at least one endpoint instant. Distinct = distinct canonical case JSON.")
ASSUMPTIONS = [
    "only the JSON parser backend (ijson is not installed)",
    "kernel-type class of a name is its tag in hv/gen/vocab.py",
    "NaN is accepted only when the union of communication kernels has measure 0",
]
TOL = 0.005 + 1e-9


def expected(events) -> tuple:
    ivs = device_intervals(events)
    comm = [(s, e) for n, _, s, e in ivs if vocab.kernel_type(n) == vocab.COMMUNICATION]
    comp = [(s, e) for n, _, s, e in ivs if vocab.kernel_type(n) == vocab.COMPUTATION]
    denom = union_measure(comm)
    cm = combo_measure({"comm": comm, "comp": comp})
    both = cm.get(frozenset(["comm", "comp"]), 0)
    return both, denom, comm, comp


def check(case: Dict[str, Any]) -> CaseInfo:
    from hv.hta_io import load_analysis

    with scratch_dir() as d:
        files = write_case(case, d)
        ta = load_analysis(files, d, mp=case.get("mp", False), prelude=case.get("prelude"))
        df = hta_call("get_comm_comp_overlap", lambda: ta.get_comm_comp_overlap(visualize=False))
    require(sorted(int(r) for r in df["rank"]) == sorted(files), "rows:one_per_rank", lambda: f"ranks {list(df['rank'])}")
    classes: List[str] = []
    nontrivial = False
    for rd in case["ranks"]:
        both, denom, comm, comp = expected(rd["events"])
        got = float(df[df["rank"] == rd["rank"]]["comp_comm_overlap_pctg"].iloc[0])
        if denom == 0:
            classes.append("zero_comm_measure")
            require(math.isnan(got) or got == 0.0, "value:zero_denominator", lambda: f"rank {rd['rank']}: got {got}")
            continue
        want = 100.0 * both / denom
        require(not math.isnan(got) and abs(got - want) <= TOL, "value:overlap_pct",
                lambda: f"rank {rd['rank']}: want {want} ({both}/{denom}), got {got}; comm={comm} comp={comp}")
        require(-1e-9 <= got <= 100 + 1e-9, "range:0_100", lambda: f"got {got}")
        pc = [iv for iv in comm if iv[1] > iv[0]]
        pk = [iv for iv in comp if iv[1] > iv[0]]
        shared = {p for iv in pc for p in iv} & {p for iv in pk for p in iv}
        if pc and pk and shared:
            nontrivial = True
            classes.append("shared_endpoint")
        if 0 < both < denom:
            classes.append("partial")
        elif both == denom:
            classes.append("full")
        elif pk:
            classes.append("disjoint")
        classes += tie_classes(device_intervals(rd["events"]))
    if len(case["ranks"]) >= 2:
        classes.append("multi_rank")
    return CaseInfo(nontrivial=nontrivial, classes=classes)


def view(case):
    return {"fmt": case["fmt"], "ranks": [{"rank": r["rank"], "device": device_intervals(r["events"])} for r in case["ranks"]]}


def campaigns(tier: str) -> List[Campaign]:
    return [Campaign("overlap", interval_case(weights=(5, 5, 1, 1), force_comm=True, unrounded=True), check, quick=480, thorough=24000,
                     quick_shards=8,
                     required_classes={"shared_endpoint": 0.3, "partial": 0.15, "touching": 0.05, "zero_length": 0.05,
                                       "multi_rank": 0.1},
                     sample_view=view)]
