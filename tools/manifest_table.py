add("C04", "property-based testing (Hypothesis) against a sweep-line reference model",
    "Generated-input search: interval arrangements with frequent ties on 1-4 streams and 1-3 ranks are written as trace files, loaded through TraceAnalysis and compared exactly (integers) with a sweep-line model of span/union/compute measures; percentages to 0.005.",
    "Trusts the reference model (hv/model/intervals.py) and the name->kernel-type tags of hv/gen/vocab.py; bounded to <= 14 activities per rank; JSON parser backend only.",
    "DESIGN.md §5 C04")
add("C05", "property-based testing (Hypothesis) against a sweep-line reference model",
    "Generated-input search over interval arrangements x (num_kernels, duration_ratio, include_memory_kernels): the kernel-type table is compared exactly with the exclusive type-combination measure computed by sweep over the raw entries, and the per-kernel table with per-name count/sum/min/max/mean recomputed from the raw entries (validity predicate for which names are folded into 'others').",
    "Trusts hv/model/intervals.py and the vocabulary tags; which names get folded is only constrained by 'at most num_kernels named rows'; <= 14 activities per rank.",
    "DESIGN.md §5 C05")
add("C07", "property-based testing (Hypothesis) against a sweep-line reference model",
    "Generated-input search: communication/computation interval arrangements with frequent shared endpoints; the reported percentage is compared (tolerance 0.005) with 100*|U comm ^ U comp|/|U comm| from an endpoint sweep; range 0..100 checked directly.",
    "Trusts hv/model/intervals.py and the vocabulary tags; NaN accepted only when the communication union has measure 0.",
    "DESIGN.md §5 C07")
add("C03", "property-based testing (Hypothesis): innermost-enclosing-span reference model + validity predicate for zero-duration events",
    "Generated-input search over properly nested span families (ties of every kind, zero-duration events at every kind of position, arbitrary ids, permuted rows): both call-stack builders are called directly and through Trace+CallGraph on a written file; parents of positive events must equal the model's innermost container, every id appears once, children = inverse of parent, depth = #ancestors; zero-duration events are checked by a validity predicate that accepts every legal placement.",
    "Trusts the quadratic reference model in hv/gen/spans.py; families of <= 26 events, depth <= 5; thorough tier explores 16x20000 families.",
    "DESIGN.md §5 C03")
add("C18", "property-based testing (Hypothesis): per-class predicate model + metamorphic relations (composition = sequence = intersection, idempotence, input purity)",
    "Generated-input search over event frames (encoded / decoded names, str and object dtype, optional columns) x every filter class x parameters x compositions of 0-4 members: selected ids, order, row contents and columns equal the pure-Python predicate model; the input frame equals a deep copy taken before the call; composite == sequential application == intersection (row-local members, every drawn order); f(f(x)) == f(x).",
    "Trusts the predicate model in hv/props/c18.py (regex match from the start of the name; documented identities for missing columns and all -1 iterations); hand-built frames of <= 12 rows.",
    "DESIGN.md §5 C18")
add("C02", "property-based testing (Hypothesis) with fault injection against a dictionary-join reference model",
    "Generated-input search over simulated Kineto traces with injected faults (dropped launch, dropped activity, stripped correlation id, dropped sync record): every row's link is compared with a pure-Python join over the raw entries, and the 'never' clauses (same id, opposite sides, mutual, sentinel meaning) are asserted directly on every link.",
    "Trusts hv/model/raw.py (side rule: stream >= 0 with an id, or Event/Context Sync record); correlation ids unique per pair by construction.",
    "DESIGN.md §5 C02")
add("C14", "property-based testing (Hypothesis) against a step-function reference model; round-trip through the written counter file",
    "Generated-input search over simulated traces with equal-timestamp launch/start interleavings, several streams and copy types: the queue-length series is compared row by row with the +1/-1 event model (row set, timestamps, order, step per row, value at the end of each instant, non-negativity, final 0), the bandwidth series with the sum of active copies, and the counter events of the written file with both series at unshifted timestamps.",
    "Trusts the event model in hv/props/c14.py and hv/model/raw.py; activities never start before their launch (by construction); bandwidth tolerance 1e-9 relative.",
    "DESIGN.md §5 C14")
add("C15", "property-based testing (Hypothesis) with fault injection against a join reference model (multiset equality)",
    "Generated-input search over simulated traces (documented launch names, clipped and positive delays, memory launches, linked non-launch calls, missing partners) x include_memory_events x rank selection: the returned rows must equal, as a multiset, (correlation, cpu_duration, gpu_duration, max(0, start - launch end)) over the model's linked launch/activity pairs.",
    "Trusts hv/model/raw.py links; fewer than two profiler steps so loading trims nothing.",
    "DESIGN.md §5 C15")
add("C06", "property-based testing (Hypothesis) with fault injection against a per-stream gap-classification reference model",
    "Generated-input search over simulated FIFO-stream traces (missing launches, late first entry, zero-length kernels, same-start kernels) x threshold x stream/rank subsets: reported idle time per category is compared exactly with the model's classified gaps, categories must add up to span minus busy time, ratios are the shares (2 decimals) and add up to 1.",
    "Trusts hv/model/raw.py links and the gap model in hv/props/c06.py; kernels never overlap within a stream (FIFO simulation); fewer than two profiler steps.",
    "DESIGN.md §5 C06")
add("C12", "property-based testing (Hypothesis) against an iteration/trimming reference model (set equality both ways)",
    "Generated-input search over simulated traces with 0-4 profiler steps, gaps, work before/after the steps, a second thread straddling step boundaries and kernels running in a later step than their launch x include_last_profiler_step: per-row iteration after parse_traces() and the kept id set after load_traces() are compared with the model (nothing dropped, nothing resurrected, no duplicates), get_iterations() recomputed.",
    "Trusts hv/model/trace.py; both readings accepted for sync records on stream -1; fate of activities without any correlation id left open; same step numbers on all ranks.",
    "DESIGN.md §5 C12")
add("C08", "property-based testing (Hypothesis) over a discrete-event trace simulator; edge-by-edge validity predicate + own Kahn pass",
    "Generated-input search over causally consistent simulated traces x annotation window x instance range x zero-weight launch edges: success flag, independent acyclicity check, node multiset equal to start/end of every analysed event of the model window, and per edge forward-in-time, non-negative CPEdge and graph weight, weight = time difference or 0 by type, and type-specific endpoint rules (launch call -> its own activity; consecutive kernels of one stream; kernel end -> end of the sync call that waited on its stream, or start of a kernel on another stream; operator edges within one thread / one kernel).",
    "Trusts the simulator's causality rules (hv/gen/kineto_sim.py) and the window model (hv/props/cp_common.py); CUDA event record/wait pairs not generated; windows without a positive-weight path excluded (analysis asserts there).",
    "DESIGN.md §5 C08")
add("C09", "property-based testing (Hypothesis): differential check against an own topological longest-path pass, incl. metamorphic re-weighting",
    "Generated-input search over C08's graphs and re-weighted copies (documented what-if workflow, up to two rounds): the reported path must be connected, its weight must equal the maximum over all paths computed by an independent Kahn/DP pass, stay within the makespan on the unmodified graph, and the reported event and edge sets must be exactly those of the path (recomputed after each re-weighting).",
    "Trusts the own longest-path pass in hv/props/cp_common.py; re-weightings that leave no positive-weight path are skipped (degenerate).",
    "DESIGN.md §5 C09")
add("C10", "property-based testing (Hypothesis): conservation + attribution validity predicate over the critical edges",
    "Generated-input search over C08's analyses: one breakdown row per critical edge, durations add up to the path weight, span edges attributed to an existing event of the same thread/stream covering the edge's time range, kernel-to-kernel edges to the preceding kernel, bound_by recomputed from the attributed event via vocabulary tags, summary() = per-class shares adding up to 100.",
    "Trusts the vocabulary tags for communication kernels and the window model; tolerance 1e-6 on percentages.",
    "DESIGN.md §5 C10")
add("C19", "property-based testing (Hypothesis) over operation histories (save/restore cycles, recomputation, re-weighting) against the in-memory original as model",
    "Generated histories of 1-6 operations over graphs of the C08 family: after every save+restore cycle the restored object is compared with the in-memory original (node set, edge set, per-edge weight/type/CPEdge, node_list, event->node maps, edge_to_event_map, critical path nodes/edges/events, breakdown as a multiset of rows); recomputation and what-if re-weighting are applied to both and the path weights compared.",
    "The in-memory original is the model; path ties may be broken differently after a restore, so recomputed paths are compared by weight.",
    "DESIGN.md §5 C19")
add("C20", "property-based testing (Hypothesis): round-trip / prefix-preservation oracles over the written files",
    "Generated-input search over three writers: the trace with counters (flags, suffix, ranks), the critical-path overlay (all option combinations incl. the zero-weight-launch-edge switch) and write_trace/read_trace/update_trace_rank/create_rank_to_trace_dict in both file formats with ranks up to 10^6. The first n output events must equal the source list element-wise (overlay: modulo the 'critical' marker), only counters/flow events may be appended, markers sit exactly on the critical events, one s+f pair per drawn edge on the pid/tid of the edge's two events, rank update changes only distributedInfo.rank, discovery returns the metadata rank.",
    "Output files are read by sniffing the gzip magic (the writers gzip regardless of the name); complete events carry an args object; generated event args contain no key named rank.",
    "DESIGN.md §5 C20")
add("C13", "property-based testing (Hypothesis) over a trace simulator against a recursive tree reference model",
    "Generated-input search over simulated multi-thread traces (step thread + autograd thread, backward annotations, launches from several children, dropped partners) loaded through the public entry point: parent, depth, height and the five kernel aggregates of every host event are recomputed from a model tree (innermost-enclosing forest + device children from links + stated autograd re-parenting) in loaded time and compared exactly; get_stack_of_node must contain ancestors and descendants; zero-duration operators by validity predicate.",
    "Trusts hv/gen/spans.model_parents, hv/model/raw links and hv/model/trace trimming; sync records on stream -1 are not part of the asserted tree.",
    "DESIGN.md §5 C13")
add("C16", "property-based testing (Hypothesis) with template-reuse generation against a tree reference model",
    "Generated-input search over simulated traces in which operator templates are instantiated repeatedly with variations (dropped launch, renamed kernel, same-name and other-name wrappers, dropped partners) x operator name/substring x min_pattern_len x top_k: the returned table must equal pattern -> (count, kernel duration sum, operator duration sum) computed from the model call tree at the shallowest matching depth, with rows in non-increasing count; totals-only when kernel start order is ambiguous.",
    "Trusts hv/model/calltree.py; no zero-duration host events, no sync calls, no autograd thread in these traces; exactly one profiler 'Trace' span entry.",
    "DESIGN.md §5 C16")
add("C17", "property-based testing (Hypothesis): differential check against a dictionary-count reference model + partition/metamorphic (self-comparison) relations",
    "Generated-input search over pairs of independently simulated rank sets sharing a small vocabulary x rank selection (incl. proper subsets of >= 2 ranks) x iteration selection x device filter x long/short names: counts and total durations per name per side are recomputed from the raw entries with the C12 iteration model, diffs = test - control, index = union of names; the five ops_diff classes must be pairwise disjoint, cover every name and match their definitions; a trace compared with itself yields only 'unchanged' and zero differences.",
    "Trusts hv/model/trace.py iterations and the hand-written short names in hv/gen/vocab.py; every trace has >= 1 profiler step; no sync records on stream -1.",
    "DESIGN.md §5 C17")
add("C11", "Hypothesis rule-based state machine (symbol-table histories vs list+dict model) + differential runs of the loader across hash seeds, parse orders and harness-owned worker schedules",
    "(a) Generated histories over TraceSymbolTable executed against a list+dict model with the bijection / density / stability invariant after every step. (b) Generated multi-rank file sets loaded in 3-5 child interpreters differing in PYTHONHASHSEED, use_multiprocessing, rank order and worker completion order (injected per-file delays in the forked pool); every rank must decode to its own file's strings and the canonical digests (decoded rows + ten analysis outputs) of all children must be equal.",
    "Hash seeds, orders and schedules are sampled; completion order is steered by sleeps of 0.25 s granularity in forked workers; add_symbols_mp's numbering order among new symbols is not prescribed.",
    "DESIGN.md §5 C11")
add("C01", "property-based testing (Hypothesis) over raw Chrome-trace files against a pure-Python parser model; metamorphic rounding relations",
    "Generated-input search over raw multi-rank file sets (arbitrary mix and order of complete, metadata, flow, instant, counter, 'Trace' and incomplete entries; integer or fractional stamps; both formats; epoch up to 1.7e15) through parse_traces(), load_traces() and TraceAnalysis() with multiprocessing on and off: row ids equal the positions of the model's complete events in both directions, every field decodes to the file's value, fractional stamps follow ceil/floor on the same doubles, rounding is inward and preserves containment/disjointness, every loaded ts equals the rounded file ts minus one constant with overall minimum 0, end == ts + dur.",
    "Trusts hv/model/raw.py; JSON backend only (ijson not installed); fewer than two profiler steps so nothing is trimmed.",
    "DESIGN.md §5 C01")
