"""C17 Trace diff counts and durations are exact; change classes partition the names."""
from __future__ import annotations

import os
from typing import Any, Dict, List, Tuple

from hypothesis import strategies as st

from hv.core import Campaign, CaseInfo, hta_call, require
from hv.gen import vocab
from hv.gen.files import scratch_dir, write_case
from hv.gen.kineto_sim import Opts, sim_case
from hv.model.raw import complete_rows
from hv.model.trace import iterations

ID = "C17"
RULE = ("Two independently generated G-sim rank sets (1-3 ranks each, 1-3 profiler steps, shared vocabulary incl. template-style "
        "names with hand-written short forms, several long names per short form) x rank selection (None, int, singleton, proper "
        "subset of >= 2, all) x iteration selection (None, int, subset) x device filter x long/short names. Oracle: per (short) "
        "name count and total duration of the model events of the selected ranks whose model iteration is selected, per side; "
        "diffs = test - control; index = union of names; the five ops_diff classes are pairwise disjoint, cover every name and "
        "satisfy their definitions; a trace compared with itself (same directory twice, and the same LabeledTrace object twice) "
        "yields only unchanged names and zero differences; one case in three gives both LabeledTrace objects the same label, and "
        "either ops_diff or compare_traces is the first call made on the pair (ops_diff, compare_traces, ops_diff or compare_traces, "
        "ops_diff). Non-trivial: names in all of only-control, only-test, increased, "
        "decreased, unchanged. Distinct = distinct canonical case JSON.")
ASSUMPTIONS = [
    "every trace has at least one profiler step (the API documents that a selection needs an iteration)",
    "no synchronisation records on stream -1 in these traces (their iteration has two accepted readings, see C12)",
    "short names are hand-written in hv/gen/vocab.py, not recomputed with HTA's shorten_name",
]
OP_NAMES = vocab.CPU_OPS[:3] + list(vocab.TEMPLATE_OPS)
KERNELS = vocab.COMP_KERNELS[:1] + [n for n in vocab.COMP_KERNELS if "<" in n][:2] + vocab.COMM_KERNELS[:1]


def side_summary(case: Dict[str, Any], ranks: List[int], iters: List[int], device: str, short: bool) -> Dict[str, List[int]]:
    out: Dict[str, List[int]] = {}
    for rd in case["ranks"]:
        if rd["rank"] not in ranks:
            continue
        rows = complete_rows(rd["events"])
        its = iterations(rows)
        for r in rows:
            assert len(its[r.id]) == 1
            if next(iter(its[r.id])) not in iters:
                continue
            if device == "CPU" and r.stream != -1:
                continue
            if device == "GPU" and r.stream == -1:
                continue
            key = vocab.short_name(r.name) if short else r.name
            e = out.setdefault(key, [0, 0])
            e[0] += 1
            e[1] += r.dur
    return out


def resolve(sel: Any, available: List[int]) -> List[int]:
    if sel is None:
        return available[:1]
    if isinstance(sel, int):
        return [sel]
    return list(sel)


def all_iterations(case: Dict[str, Any]) -> List[int]:
    s = set()
    for rd in case["ranks"]:
        for r in complete_rows(rd["events"]):
            if r.name.startswith("ProfilerStep#"):
                s.add(int(r.name.split("#")[1]))
    return sorted(s)


def check(case: Dict[str, Any]) -> CaseInfo:
    from hv.hta_io import quiet

    quiet()
    from hta.common.trace import Trace
    from hta.trace_diff import DeviceType, LabeledTrace, TraceDiff

    p = case["params"]
    classes: List[str] = []
    if case["control"].get("unrounded"):
        classes.append("unrounded_fractional_times")
    dev = {"CPU": DeviceType.CPU, "GPU": DeviceType.GPU, "ALL": DeviceType.ALL}[p["device"]]
    with scratch_dir() as d:
        sides = {}
        for label in ("control", "test"):
            sub = os.path.join(d, label)
            os.makedirs(sub)
            files = write_case(case[label], sub)
            sides[label] = (sub, files)
        def mk(label):
            t = Trace(dict(sides[label][1]), sides[label][0])
            if p.get("preloaded", {}).get(label):
                # the Trace object went through a full load before (e.g. TraceAnalysis(...).t): the diff must still see every
                # event of the files, not the frames that load trimmed
                hta_call("load_traces(before the diff)", lambda: t.load_traces(use_multiprocessing=False))
            return t

        equal = p.get("equal_labels", False)
        c_obj = hta_call("LabeledTrace(control)", lambda: LabeledTrace("Control", t=mk("control")))
        t_obj = hta_call("LabeledTrace(test)", lambda: LabeledTrace("Control" if equal else "Test", t=mk("test")))
        cr, tr = [r["rank"] for r in case["control"]["ranks"]], [r["rank"] for r in case["test"]["ranks"]]
        ci, ti = all_iterations(case["control"]), all_iterations(case["test"])
        require(hta_call("iterations", lambda: c_obj.iterations()) == ci and t_obj.iterations() == ti, "iterations", lambda: f"{ci} {ti}")
        want_c = side_summary(case["control"], resolve(p["control_rank"], cr), resolve(p["control_iter"], ci), p["device"], p["short"])
        want_t = side_summary(case["test"], resolve(p["test_rank"], tr), resolve(p["test_iter"], ti), p["device"], p["short"])
        lc = side_summary(case["control"], resolve(p["control_rank"], cr), resolve(p["control_iter"], ci), p["device"], False)
        lt = side_summary(case["test"], resolve(p["test_rank"], tr), resolve(p["test_iter"], ti), p["device"], False)
        present: set = set()

        def table():
            df = hta_call("compare_traces", lambda: TraceDiff.compare_traces(
                c_obj, t_obj, p["control_rank"], p["test_rank"], p["control_iter"], p["test_iter"], dev, p["short"]))
            # two traces given the same label: the test side is relabelled; the columns carry the objects' labels
            cl, tl = c_obj.label, t_obj.label
            require(cl == "Control" and tl != cl, "table:labels_distinct", lambda: f"{cl!r} {tl!r}")
            names = sorted(set(want_c) | set(want_t))
            require(sorted(df.index) == names and df.index.is_unique, "table:one_row_per_name",
                    lambda: f"missing {sorted(set(names) - set(df.index))} extra {sorted(set(df.index) - set(names))}")
            for n in names:
                r = df.loc[n]
                wc, wt = want_c.get(n, [0, 0]), want_t.get(n, [0, 0])
                got = [int(r[cl + "_counts"]), float(r[cl + "_total_duration"]), int(r[tl + "_counts"]), float(r[tl + "_total_duration"])]
                require(got == wc + wt, "table:counts_and_durations", lambda: f"{n!r}: got {got}, expected {wc + wt}")
                require(int(r["diff_counts"]) == wt[0] - wc[0] and float(r["diff_duration"]) == wt[1] - wc[1], "table:diff_is_test_minus_control",
                        lambda: f"{n!r}: {r.to_dict()}")
                sign = "+" if wt[0] > wc[0] else "-" if wt[0] < wc[0] else "="
                require(r["counts_change_categories"] == sign, "table:change_category", lambda: f"{n!r}: {r['counts_change_categories']} vs {sign}")

        def ops():
            # ---- ops_diff (long names only: the API has no short-name switch) ----
            od = hta_call("ops_diff", lambda: TraceDiff.ops_diff(c_obj, t_obj, p["control_rank"], p["test_rank"], p["control_iter"],
                                                                  p["test_iter"], dev))
            require(sorted(od) == ["added", "decreased", "deleted", "increased", "unchanged"], "ops_diff:keys", lambda: str(sorted(od)))
            seen: Dict[str, str] = {}
            for cls_, lst in od.items():
                require(len(lst) == len(set(lst)), "ops_diff:duplicates_in_class", lambda: f"{cls_}: {lst}")
                for n in lst:
                    require(n not in seen, "ops_diff:classes_disjoint", lambda: f"{n!r} in {seen.get(n)} and {cls_}")
                    seen[n] = cls_
            allnames = set(lc) | set(lt)
            require(set(seen) == allnames, "ops_diff:classes_cover_every_name",
                    lambda: f"missing {sorted(allnames - set(seen))} extra {sorted(set(seen) - allnames)}")
            for n, cls_ in seen.items():
                a, b = lc.get(n, [0, 0])[0], lt.get(n, [0, 0])[0]
                want = "added" if a == 0 else "deleted" if b == 0 else "increased" if b > a else "decreased" if b < a else "unchanged"
                require(cls_ == want, "ops_diff:class_definition", lambda: f"{n!r}: control {a} test {b}: {cls_} expected {want}")
            present.update(seen[n] for n in seen)

        # either call may be the first one made on this pair of objects
        for step in ((ops, table, ops) if p.get("ops_first") else (table, ops)):
            step()
        if equal:
            classes.append("both_sides_same_label")
            if p.get("ops_first"):
                classes.append("same_label_ops_diff_first")
        classes += ["class:" + c for c in present]
        # ---- self comparison ----
        if p["self_mode"] == "same_dir":
            sd = hta_call("compare_traces(self, dirs)", lambda: TraceDiff.compare_traces(sides["control"][0], sides["control"][0],
                                                                                       p["control_rank"], p["control_rank"], p["control_iter"],
                                                                                       p["control_iter"], dev, p["short"]))
            so = hta_call("ops_diff(self, dirs)", lambda: TraceDiff.ops_diff(sides["control"][0], sides["control"][0], p["control_rank"],
                                                                            p["control_rank"], p["control_iter"], p["control_iter"], dev))
        elif p["self_mode"] == "same_object":
            sd = hta_call("compare_traces(self, same object)", lambda: TraceDiff.compare_traces(c_obj, c_obj, p["control_rank"], p["control_rank"],
                                                                                                p["control_iter"], p["control_iter"], dev, p["short"]))
            so = hta_call("ops_diff(self, same object)", lambda: TraceDiff.ops_diff(c_obj, c_obj, p["control_rank"], p["control_rank"],
                                                                                   p["control_iter"], p["control_iter"], dev))
            require(c_obj.label == "Control", "self:label_of_shared_object_unchanged", lambda: c_obj.label)
        else:
            c2 = hta_call("LabeledTrace(control again)", lambda: LabeledTrace("Again" if p["self_mode"] == "two_objects" else "Control",
                                                                              t=mk("control")))
            sd = hta_call("compare_traces(self, objects)", lambda: TraceDiff.compare_traces(c_obj, c2, p["control_rank"], p["control_rank"],
                                                                                            p["control_iter"], p["control_iter"], dev, p["short"]))
            so = hta_call("ops_diff(self, objects)", lambda: TraceDiff.ops_diff(c_obj, c2, p["control_rank"], p["control_rank"],
                                                                               p["control_iter"], p["control_iter"], dev))
        require((sd["diff_counts"] == 0).all() and (sd["diff_duration"] == 0).all() and (sd["counts_change_categories"] == "=").all(),
                "self:zero_differences", lambda: sd.to_string())
        require(all(len(v) == 0 for k, v in so.items() if k != "unchanged") and set(so["unchanged"]) == set(lc), "self:only_unchanged",
                lambda: str({k: v for k, v in so.items() if k != "unchanged"}))
        require(sorted(sd.index) == sorted(want_c), "self:names", lambda: f"{sorted(sd.index)} vs {sorted(want_c)}")
        classes.append("self_" + p["self_mode"])
    for k in ("control_rank", "test_rank"):
        v = p[k]
        avail = cr if k == "control_rank" else tr
        if isinstance(v, list) and 2 <= len(v) < len(avail):
            classes.append("proper_rank_subset")
        if isinstance(v, list) and len(v) >= 2:
            classes.append("multi_rank_selection")
    if p["short"]:
        classes.append("short_names")
        if any(vocab.short_name(n) != n for n in lc):
            classes.append("short_name_merges")
    classes.append("device:" + p["device"])
    if any(p.get("preloaded", {}).values()):
        classes.append("trace_object_loaded_before_the_diff")
    for side in ("control", "test"):
        cats: Dict[str, set] = {}
        for rd in case[side]["ranks"]:
            for r in complete_rows(rd["events"]):
                cats.setdefault(r.name, set()).add(r.cat)
        if any(len(v) > 1 for v in cats.values()):
            classes.append("one_name_under_two_categories")
            break
    nt = {"added", "deleted", "increased", "decreased", "unchanged"} <= present
    return CaseInfo(nontrivial=nt, classes=classes)


def _rank_sel(draw, ranks: List[int]) -> Any:
    # None = "the first rank of the traces": only drawn when the first loaded rank is also the smallest (both readings agree)
    mode = draw(st.sampled_from(["subset", "none", "int", "single", "all"] if ranks[0] == min(ranks) else ["subset", "int", "single", "all"]))
    if mode == "none":
        return None
    if mode == "int":
        return draw(st.sampled_from(ranks))
    if mode == "single":
        return [draw(st.sampled_from(ranks))]
    if mode == "all" or len(ranks) < 3:
        return list(ranks)
    return list(draw(st.permutations(ranks)))[:2]


def _iter_sel(draw, iters: List[int]) -> Any:
    mode = draw(st.sampled_from(["none", "int", "list", "all"]))
    if mode == "none":
        return None
    if mode == "int":
        return draw(st.sampled_from(iters))
    if mode == "all":
        return list(iters)
    return list(draw(st.permutations(iters)))[: draw(st.sampled_from([1, 2]))]


@st.composite
def c17_case(draw):
    # annotations may carry the name of an operator: one name under two event categories (the table has one row per *name*)
    o = Opts(steps=[2, 1, 3], w_launch=5, w_sync=1, w_op=6, max_top=4, annotations=True, annotation_weight=1,
             annotation_names=OP_NAMES[:2] + ["my_region"], memcpy=False, streams=2, device_sync=False, event_sync=False,
             second_thread=True, op_names=OP_NAMES, kernel_names=KERNELS, faults=True)
    control = draw(sim_case(o, max_ranks=3, nranks_choices=[3, 1, 2, 3]))
    test = draw(sim_case(o, max_ranks=3, nranks_choices=[1, 3, 2]))
    cr, tr = [r["rank"] for r in control["ranks"]], [r["rank"] for r in test["ranks"]]
    params = {
        "control_rank": _rank_sel(draw, cr), "test_rank": _rank_sel(draw, tr),
        "control_iter": _iter_sel(draw, all_iterations(control)), "test_iter": _iter_sel(draw, all_iterations(test)),
        "device": draw(st.sampled_from(["ALL", "CPU", "GPU"])), "short": draw(st.sampled_from([True, False])),
        "self_mode": draw(st.sampled_from(["same_object", "same_dir", "two_objects", "same_label"])),
        "equal_labels": draw(st.sampled_from([True, False, False])), "ops_first": draw(st.sampled_from([True, False])),
        "preloaded": {"control": draw(st.sampled_from([True, False, False])), "test": draw(st.sampled_from([True, False, False, False]))},
    }
    if draw(st.sampled_from([True, False, False, False, False])):
        # both sides with quarter-microsecond times, loaded with HTA_DISABLE_NS_ROUNDING=1 (the diff parses lazily, so the
        # option must be the same for both sides): total durations and their differences are fractional
        from hv.gen.files import scale_to_sub_microsecond
        scale_to_sub_microsecond(control)
        scale_to_sub_microsecond(test)
    return {"control": control, "test": test, "params": params}


def view(case):
    return {"params": case["params"],
            "control_names": sorted({r.name for rd in case["control"]["ranks"] for r in complete_rows(rd["events"])})[:12],
            "test_names": sorted({r.name for rd in case["test"]["ranks"] for r in complete_rows(rd["events"])})[:12]}


def campaigns(tier: str) -> List[Campaign]:
    return [Campaign("diff", c17_case(), check, quick=240, thorough=14400, quick_shards=8,
                     required_classes={"unrounded_fractional_times": 0.05, "class:added": 0.3, "class:deleted": 0.3, "class:increased": 0.12, "class:decreased": 0.12,
                                       "class:unchanged": 0.3, "multi_rank_selection": 0.1, "short_names": 0.2,
                                       "short_name_merges": 0.1, "proper_rank_subset": 0.08,
                                       "same_label_ops_diff_first": 0.08, "one_name_under_two_categories": 0.2, "trace_object_loaded_before_the_diff": 0.2},
                     sample_view=view)]
