"""G-raw: a Chrome-trace file as Kineto writes it, with an arbitrary mix and order of entries (C01).

traceEvents = an arbitrary interleaving of complete events (ph X with cat, name, pid, tid, ts, dur,
args), metadata M events, flow s/f events (ac2g, fwdbwd), instant i events, the profiler's own
cat "Trace" span with string pid/tid, entries with a category but no duration, entries with a
duration but no category, events with unknown extra args; integer or fractional ts/dur; 1-4 ranks with
different vocabularies.  The first entry is always a host cpu_op.
"""
from __future__ import annotations

from typing import Any, Dict, List

from hypothesis import strategies as st

from hv.gen import vocab

EPOCHS = [0, 1000, 10**9, 1_700_000_000_000_000, 100, 32_700, 2**31 - 40]  # the last three: stamps cross a narrow dtype's range
HOST_NAMES = vocab.CPU_OPS + vocab.KERNEL_LAUNCHES + vocab.NONLAUNCH_RUNTIME + vocab.USER_ANNOTATIONS + vocab.AUTOGRAD_OPS + \
    list(vocab.TEMPLATE_OPS) + ["ProfilerStep#7"]
DEV_NAMES = vocab.COMP_KERNELS + vocab.COMM_KERNELS + vocab.MEM_KERNELS + ["Stream Sync", "Context Sync", "Event Sync"]
CATS_HOST = ["cpu_op", "cuda_runtime", "cuda_driver", "user_annotation", "python_function", "fwdbwd"]


def pick(draw, seq):
    return draw(st.sampled_from(list(seq)))


@st.composite
def number(draw, base: int, hi: int, fractional, is_dur: bool = False):
    """fractional: False (whole stamps), True (fractional ts and dur) or "dur" (whole ts, fractional dur only)."""
    v = draw(st.integers(0, hi))
    if not fractional or (fractional == "dur" and not is_dur):
        return base + v
    frac = draw(st.sampled_from([0, 0, 1, 250, 500, 999, 123, 877]))
    return float(base) + v + frac / 1000.0


@st.composite
def complete_event(draw, rank: int, epoch: int, fractional: bool, names_host: List[str], names_dev: List[str]) -> Dict[str, Any]:
    side = pick(draw, ["host", "host", "device"])
    ts = draw(number(epoch, 40, fractional))
    dur = draw(number(0, 12, fractional, True))
    if side == "host":
        name = pick(draw, names_host + ["op_" + draw(st.text(alphabet="abc", min_size=1, max_size=3))])
        cat = pick(draw, CATS_HOST) if not name.startswith("cuda") else "cuda_runtime"
        args: Dict[str, Any] = {"External id": draw(st.integers(1, 500))}
        if draw(st.booleans()):
            args["correlation"] = draw(st.sampled_from([0, 1, 2, 3, 17, 59]))
        if draw(st.sampled_from([False] * 6 + [True])):
            args["Input Dims"] = [[2, 3], []]
        if draw(st.sampled_from([False] * 7 + [True])):
            args["stream"] = pick(draw, ["0x0", "0x55d0c8a3b2f0"])  # ROCm: the stream handle of a host call, a hex string
        e = {"ph": "X", "cat": cat, "name": name, "pid": 5000 + rank, "tid": pick(draw, [5000 + rank, 6000 + rank]), "ts": ts, "dur": dur,
             "args": args}
    else:
        name = pick(draw, names_dev)
        stream = pick(draw, [7, 0, 7, 20, 24])
        sval: Any = stream
        if name in ("Context Sync", "Event Sync"):
            sval = -1
        elif draw(st.sampled_from([False] * 9 + [True])):
            sval = pick(draw, [str(stream), "n/a"])
        args = {"device": rank % 8, "context": 1, "stream": sval}
        if draw(st.sampled_from([True, True, True, False])):
            args["correlation"] = draw(st.sampled_from([0, 1, 2, 3, 17, 59]))
        if draw(st.sampled_from([False] * 4 + [True])):
            args["bytes"] = 1024
            args["memory bandwidth (GB/s)"] = 1.5
        if draw(st.sampled_from([False] * 5 + [True])):
            args["registers per thread"] = 32  # unknown extra arg
        e = {"ph": "X", "cat": vocab.device_cat(name) if name not in ("Context Sync", "Event Sync") else "cuda_sync", "name": name,
             "pid": rank % 8, "tid": stream if sval != -1 else -1, "ts": ts, "dur": dur, "args": args}
    return e


@st.composite
def other_entry(draw, rank: int, epoch: int, fractional: bool) -> Dict[str, Any]:
    kind = pick(draw, ["M", "M", "flow_s", "flow_f", "instant", "trace_span", "no_dur", "no_cat", "counter", "null_dur"])
    ts = draw(number(epoch, 40, fractional))
    if kind == "M":
        return pick(draw, [
            {"ph": "M", "name": "process_name", "pid": rank % 8, "tid": 0, "args": {"name": "python"}},
            {"ph": "M", "name": "thread_name", "pid": 5000 + rank, "tid": 5000 + rank, "args": {"name": "thread 1"}},
            {"ph": "M", "name": "process_labels", "pid": rank % 8, "tid": 0, "args": {"labels": "GPU 0"}},
            {"ph": "M", "name": "process_sort_index", "pid": rank % 8, "tid": 0, "args": {"sort_index": 5000000}},
        ])
    if kind == "flow_s":
        return {"ph": "s", "id": draw(st.integers(1, 60)), "pid": 5000 + rank, "tid": 5000 + rank, "ts": ts,
                "cat": pick(draw, ["ac2g", "fwdbwd"]), "name": pick(draw, ["ac2g", "fwdbwd"])}
    if kind == "flow_f":
        return {"ph": "f", "id": draw(st.integers(1, 60)), "pid": rank % 8, "tid": 7, "ts": ts, "cat": pick(draw, ["ac2g", "fwdbwd"]),
                "name": pick(draw, ["ac2g", "fwdbwd"]), "bp": "e"}
    if kind == "instant":
        return {"ph": "i", "s": "g", "name": "Iteration Start: PyTorch Profiler", "pid": "Traces", "tid": "Trace PyTorch Profiler", "ts": ts}
    if kind == "trace_span":
        return {"ph": "X", "cat": "Trace", "name": "PyTorch Profiler (0)", "pid": "Spans", "tid": "PyTorch Profiler", "ts": ts,
                "dur": draw(number(1, 50, fractional, True)), "args": {"Op count": 0}}
    if kind == "no_dur":
        return {"ph": "i", "cat": "cpu_instant_event", "name": "[memory]", "pid": 5000 + rank, "tid": 5000 + rank, "ts": ts,
                "args": {"Bytes": 512}}
    if kind == "no_cat":
        return {"ph": "X", "name": "uncategorised", "pid": 5000 + rank, "tid": 5000 + rank, "ts": ts, "dur": draw(number(0, 5, fractional, True))}
    if kind == "null_dur":
        return {"ph": "X", "cat": "cpu_op", "name": "aten::broken", "pid": 5000 + rank, "tid": 5000 + rank, "ts": ts, "dur": None, "args": {}}
    return {"ph": "C", "name": "GPU 0 Utilization", "pid": rank % 8, "ts": ts, "args": {"GPU Utilization": 0.5}}


@st.composite
def raw_rank(draw, rank: int, epoch: int, fractional: bool, every_entry_has_ts: bool = False) -> Dict[str, Any]:
    names_host = list(draw(st.permutations(HOST_NAMES)))[: pick(draw, [3, 6, 10])]
    names_dev = list(draw(st.permutations(DEV_NAMES)))[: pick(draw, [2, 4, 8])]
    first_ts = draw(number(epoch, 40, fractional))
    events: List[Dict[str, Any]] = [{"ph": "X", "cat": "cpu_op", "name": pick(draw, vocab.CPU_OPS), "pid": 5000 + rank, "tid": 5000 + rank,
                                     "ts": first_ts, "dur": draw(number(0, 10, fractional, True)), "args": {"External id": 1}}]
    n = pick(draw, [0, 1, 2, 4, 6, 9, 14])
    for _ in range(n):
        if pick(draw, [True, True, False]):
            events.append(draw(complete_event(rank, epoch, fractional, names_host, names_dev)))
        else:
            e = draw(other_entry(rank, epoch, fractional))
            if every_entry_has_ts and "ts" not in e:
                e["ts"] = first_ts  # metadata entries carry a stamp here (an entry without ts turns the column into doubles)
            events.append(e)
    return {"rank": rank, "events": events}


@st.composite
def raw_case(draw) -> Dict[str, Any]:
    nranks = pick(draw, [1, 2, 2, 3, 9, 4, 2, 3, 2, 3, 4, 1])  # 9: more than 8 ranks -> the pooled loader sizes its pool by memory profiling
    epoch = pick(draw, EPOCHS)
    fractional = pick(draw, [True, False, "dur", False])  # "dur": whole-number ts, fractional dur (no rounding happens then)
    # whole-numbered stamps beyond 2**53 (e.g. nanoseconds since 1970): exact as 64-bit integers, not as doubles.  Only full
    # loads of files whose every entry has a stamp are generated there (known finding F27 covers the rest of that region).
    huge = pick(draw, [False] * 9 + [True])
    if huge:
        epoch, fractional = pick(draw, [2**53 + 11, 1_700_000_000_000_000_003]), False
    ranks = [draw(raw_rank(r, epoch + (pick(draw, [0, 3, 17]) if r else 0), fractional, every_entry_has_ts=huge)) for r in range(nranks)]
    # one rank in a multi-rank job with > 127 distinct names while the other files stay below 128 symbols: the parser's
    # per-file compact dtype (int8) of name/cat is then too narrow for the job-wide symbol ids
    big_vocab = bool(nranks >= 2 and nranks < 9 and pick(draw, [False] * 5 + [True]))
    if big_vocab:
        tgt = ranks[pick(draw, list(range(nranks)))]
        first = tgt["events"][0]
        for i in range(132):
            tgt["events"].append({"ph": "X", "cat": "cpu_op", "name": f"uniq_op_{i:03d}", "pid": first["pid"], "tid": first["tid"] + 1,
                                  "ts": first["ts"] + (i % 37), "dur": 1 + (i % 3), "args": {"External id": 7000 + i}})
    return {"ranks": ranks, "big_vocab": big_vocab, "fmt": [pick(draw, ["json", "gz"]) for _ in range(nranks)], "fractional": fractional,
            "mp": pick(draw, [True, False, False]), "mode": pick(draw, ["load", "parse", "analysis", "dir"] if not huge else ["load", "analysis", "dir"]),
            "huge_epoch": bool(huge)}
